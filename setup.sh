#!/bin/bash
# Build the checking environment offline: a venv on top of /venv (numpy, scipy as the repo is tested with)
# plus z3-solver and cvc5 from the local wheelhouse.
set -e
HERE="$(cd "$(dirname "$0")" && pwd)"
cd "$HERE"
if [ ! -x .venv/bin/python ] || ! .venv/bin/python -c "import z3, numpy, scipy" 2>/dev/null; then
  rm -rf .venv
  /venv/bin/python -m venv .venv
  SP=$(.venv/bin/python -c "import sysconfig; print(sysconfig.get_paths()['purelib'])")
  echo "import site; site.addsitedir('/venv/lib/python3.12/site-packages')" > "$SP/_base.pth"
  PIP_NO_INDEX=1 .venv/bin/pip install -q --no-index --find-links /opt/veriftools/wheels z3-solver cvc5
fi
.venv/bin/python -c "
import sys; sys.path.insert(0, '$HERE')
from sx import selftest
r = selftest.run(0)
print('proxy self-test:', r['cases'], 'cases,', len(r['failures']), 'failures')
sys.exit(1 if r['failures'] else 0)
"
