#!/usr/bin/env python
"""Developer tool (not registered in MANIFEST.json): explore the shapes of ONE harness once and judge the clauses of
every property that lists the shape, instead of once per property.  Used to validate the thorough-tier shapes of
`ctl` on the unchanged tree within a wall-clock budget.  Prints the violation keys that replay natively.

  .venv/bin/python tools/sweep_harness.py ctl thorough 5400 [skip-quick]
"""
import json
import os
import sys
import time

HERE = os.path.dirname(os.path.dirname(os.path.abspath(__file__)))
sys.path.insert(0, HERE)

from sx import loader, runner  # noqa: E402
import harness as hreg  # noqa: E402


def main():
    hname, tier, budget = sys.argv[1], sys.argv[2], float(sys.argv[3])
    skip_quick = len(sys.argv) > 4
    loader.load(True)
    loader.load(False)
    H = hreg.HARNESSES[hname]
    props = [p for p in hreg.SERVES if hname in hreg.SERVES[p]]
    by_shape = {}
    for p in props:
        quick = {json.dumps(s, sort_keys=True, default=str) for s in H.shapes("quick", p)}
        for s in H.shapes(tier, p):
            k = json.dumps(s, sort_keys=True, default=str)
            if skip_quick and k in quick:
                continue
            by_shape.setdefault(k, (s, []))[1].append(p)
    groups = {}
    for k, (s, ps) in by_shape.items():
        groups.setdefault(tuple(sorted(ps)), []).append(s)
    n_total = len(by_shape)
    print(f"{n_total} shapes in {len(groups)} groups", flush=True)
    t_end = time.time() + budget
    done = 0
    for ps, shapes in sorted(groups.items(), key=lambda kv: -len(kv[1])):
        left = t_end - time.time()
        if left < 30:
            print("budget exhausted before group", ps, len(shapes))
            continue
        share = left * len(shapes) / max(1, n_total - done)
        opts = dict(seed=1, deadline=time.time() + share, witness_rate=0.0, task_paths=1500)
        total = runner.explore_all([(hname, s) for s in shapes], list(ps), 16, opts)
        done += len(shapes)
        print(f"group {ps} shapes={len(shapes)} paths={total['paths']} claims={total['claims']} cands={len(total['cands'])} "
              f"unexplored={total.get('unexplored', '?')} share={share:.0f}s", flush=True)
        for key, cands in sorted(total["cands"].items()):
            for cand in cands[:2]:
                c2 = dict(cand)
                c2["values"] = runner.unjson_values(cand["values"])
                verdict, detail = runner.native_check(H, cand["shape"], c2)
                print("  CAND", key, verdict, json.dumps(cand["shape"], sort_keys=True), flush=True)
                if verdict == "reproduced":
                    break


if __name__ == "__main__":
    main()
