#!/usr/bin/env python3
"""Regenerate MANIFEST.json from the table below (keeps it valid at all times)."""
import json, os
HERE = os.path.dirname(os.path.dirname(os.path.abspath(__file__)))
props = [json.loads(l)["id"] for l in open(os.path.join(HERE, "properties.jsonl"))]

TRUSTED = ("Trusted base: z3 5.1.0; the SX engine (sx/core.py) and numpy proxy (sx/symnp.py, validated against numpy on every run); "
           "scipy's _constraints.py re-loaded under the proxy with VectorFunction/LinearVectorFunction/IdentityVectorFunction modelled "
           "(sx/loader.py); finite arithmetic interpreted as exact real arithmetic, IEEE-754 special values and comparisons exact. ")

CTL = ("Control-flow harness (harness/ctl.py): the real main.minimize, _eval, _build_result, all of problem.py, TrustRegion (minus numerical kernels), Interpolation and Models (minus Quadratic) are executed symbolically "
       "on concrete geometry; every value returned by a user function is a fresh symbolic double (finite |v|<=1e6, and in 'all' shapes NaN, +-inf, +-1e300), the callback may stop at any call, and every numerical kernel is a nondeterministic contract stub. "
       "Bounds: 24 problem/option shapes (n<=2, maxfev<=4, maxiter<=2) quick; 19 statements x 5 option sets (maxfev<=6, maxiter<=3) thorough. ")
CTLNOTE = TRUSTED + ("Kernel stubs (Quadratic, the five sub-solvers, lsq_linear, determinants, _get_low_penalty) return arbitrary admissible results (contract = C15/C13); the norm of >=2 symbolic entries is over-approximated. "
                    "Counterexamples are replayed natively with the stubs pinned to the model's choices. ")

def mc(technique, text, note, design):
    return dict(technique=technique, text=text, note=note, design=design)

CLAIMS = {
 "C01": mc("bounded symbolic execution (z3 LRA, plus a bit-precise z3 binary64 re-check of the build_x clauses) of the real problem layer with symbolic bounds/x0/points, of the step glue, and of whole runs; assertion: every logged user-function/callback/returned/trial point inside the user's box",
   "Part (a) of the property (observable points): for every bound pattern (free/lower/upper/two-sided/fixed), symbolic bounds, x0 and internal point anywhere (n<=2, scale on/off), z3 proves that every argument of a user function and the returned x lie inside [lb, ub] and fixed variables are pinned (harness/pb.py); the same is asserted on every path of the control-flow harness for every user call, callback argument and result. " + CTL +
   "Part (b), by construction: with SYMBOLIC geometry (any box with lb<ub finite or infinite, any x0/centre inside, any radius) z3 proves that every initial interpolation point (n<=2 quick, n<=3 thorough) and every trial point composed by the real glue of get_trust_region_step / get_second_order_correction_step / get_geometry_step and minimize (x_best + normal + tangential, step += soc_step) lies inside the box BEFORE projection, for ANY steps the sub-solvers may return within their contract (harness/glue.py).",
   CTLNOTE + "Exact real arithmetic, except family F of harness/pb.py where the 'inside [lb, ub] exactly' clauses are re-decided bit-precisely in IEEE binary64 by z3's FP solver on the mechanically translated terms (sx/fp.py).", "5/C01, 3.5"),
 "C02": mc("bounded symbolic execution (z3 LRA): reported fun/maxcv vs harness-side true violation computed from the user's statement and the logged user-function values",
   "For every path of the problem-layer harness (symbolic bounds, limits over -inf/finite/equal/+inf/NaN, symbolic point, values) and of the control-flow harness, z3 proves res.x was evaluated, res.fun is the value returned there and res.maxcv equals max(0, bound/linear/nonlinear excess) in the user's variables (margin 1e-7 / 1e-9). " + CTL,
   CTLNOTE + "H-PB value claims assume the internal point inside the internal box.", "5/C02"),
 "C03": mc("bounded symbolic execution of the real Problem.__call__/best_eval over z3 (LRA/NRA), every (f,v) history up to K evaluations, native replay of counterexamples",
   "Every sequence of K<=3 (quick) / K<=4 all kinds, K=5 finite+NaN (thorough) evaluations with objective in {finite,NaN,+inf,-inf} and violation in {finite>=0,NaN,+inf}, every penalty>=0 and tolerance>0, filter_size in {1,2,3,unbounded}: z3 proves each clause of the selection rule on every path or returns a history replayed on the unmodified code; the same oracle is asserted end-to-end on OptimizeResult vs the evaluation log in the control-flow harness.",
   TRUSTED + "Problem.maxcv is replaced on the instance by an injected violation per evaluation in H-FILT. Recency among exact duplicates and the 'feasible point with NaN objective' case are left to the code's documented rule.", "5/C03, 4/H-FILT"),
 "C05": mc("bounded symbolic execution of whole runs (z3 LRA); counters in the harness' spies vs res.nfev/nit/histories",
   "On every explored path: evaluations <= maxfev, res.nfev == number of Problem evaluations (also fun=None), nit <= maxiter, fun_history/maxcv_history == last min(nfev, history_size) logged objective values / harness-computed true violations in order. " + CTL, CTLNOTE, "5/C05"),
 "C06": mc("bounded symbolic execution of whole runs and of single evaluations with symbolic geometry (z3 LRA); call-logging spies",
   "On every path: exactly one objective call and at most one call per constraint function per evaluation, at the evaluated point mapped to user variables by the harness' own formula, none outside an evaluation (merit, best index, ratio, result assembly), omission only for an identical point. " + CTL, CTLNOTE, "5/C06"),
 "C07": mc("bounded symbolic execution of whole runs (z3 LRA); status/message/success vs ground truth from the logs",
   "On every path: status in the nine documented codes with its message; 0 only with resolution == radius_final, 1 only if the returned point meets target and tolerance, 2 only if all fixed, 3 only if the callback raised at its last call, 4 only for fun=None and feasible, 5 only if nfev == maxfev, 6 only if nit == maxiter, -1 only for lb>ub; success implies status 0..4, finite values and feasibility. " + CTL, CTLNOTE, "5/C07"),
 "C08": mc("bounded symbolic execution of whole runs (z3 LRA) with NaN/inf/huge values injected at every user-function call",
   "On every path: no exception leaves minimize; every value handed to the models is finite and within the barrier; a NaN result is never successful. Shapes include all-fixed, inconsistent bounds (+callback), dict constraints, fixed+nonlinear+scale, contradictory limits. Termination of the numerical kernels themselves is outside (they are stubbed). " + CTL, CTLNOTE, "5/C08"),
 "C09": mc("bounded symbolic execution of whole runs (z3 LRA); first satisfied stopping request vs end of run",
   "On every path: no evaluation follows one that satisfies a request (callback stop, f<=target & feasible, feasible in a feasibility problem); statuses 1/3/4 only if the request occurred at the last evaluation; nfev is that index. Trigger at the first point, inside the initial sampling and at a trust-region step are reached. " + CTL,
   CTLNOTE + "With inconsistent bounds / all variables fixed the documented status -1 / 2 takes precedence over the request (the only evaluation is made while the early result is assembled). Target: symbolic in [-1e6, 1e6], +inf, or the documented default -inf (then a feasible evaluation returning -inf is the request).", "5/C09"),
 "C15": mc("symbolic execution of the real sub-solvers over z3 nlsat (QF_NRA), all data symbolic for n=1; n=2 semi-symbolic grid in thorough",
   "n=1: for every gradient, curvature, bounds (finite/infinite), radius, right-hand side: the returned step is within the bounds exactly, within the radius (1e-9), keeps inequalities that held at the origin and the equality null space (constrained tangential), improve_tcg on/off, all five solvers. Thorough adds n=2 with model data from a 6-point grid of degeneracies and symbolic bounds/radius.",
   TRUSTED + "Constraint matrices concrete (pivoted QR is LAPACK); exact real arithmetic; magnitudes 0 or 1e-6..1e6; nlsat time-outs are reported as inconclusive.", "5/C15, 4/H-SUB"),
 "C16": mc("symbolic execution of the real sub-solvers over z3 nlsat (QF_NRA), closed-form Cauchy oracle for n=1",
   "n=1, all data symbolic: tangential steps do not increase the model and achieve the projected-gradient Cauchy decrease (closed form), normal steps do not increase the linearised violation, geometry steps do not decrease |q| and the Cauchy geometry step strictly increases it when a first-order improving direction exists. Thorough: n=2 semi-symbolic for the no-worse clauses.",
   TRUSTED + "Gradient zero or >= 1e-6 for the Cauchy-decrease clause; margins 1e-9; nlsat time-outs reported as inconclusive.", "5/C16, 4/H-SUB"),
 "C17": mc("bounded symbolic execution (z3 LRA) of the real constraint classes with limits ranging over -inf/finite/equal/+inf/NaN",
   "For every assignment of limit patterns to 1..2 components x 1..2 objects (quick; up to 3 components thorough), scalar-broadcast limits, NaN coefficients, symbolic values/points: the numbers of internal inequalities/equalities are as stated and the largest internal violation equals the largest excess over [lb, ub] (margin 1e-7), linear and nonlinear; limit gaps inside the equality tolerance are covered by the 'tolgap' shapes.",
   TRUSTED + "Limits of magnitude <= 1e3; coefficient matrices concrete where the point is symbolic and vice versa.", "5/C17, 4/H-PB"),
 "C18": mc("inductive single-step checks of the real radius/resolution/penalty/centre rules over z3 nlsat/LRA with symbolic state and constants, plus invariant monitors on whole runs",
   "From ANY state with 0<=radius_final<=resolution<=radius and ANY constants in their documented domains: update_radius, the short-step reduction and enhance_resolution re-establish the invariant, never increase the resolution, and enhance_resolution reaches radius_final or shrinks by a regime factor < 1 (so the number of reductions is bounded by the logarithm of the ratio); penalty stays finite and >= 0; after set_best_index no point has smaller merit (up to the code's rounding tolerance) and the centre is never chosen for replacement; the same invariants are monitored on every iteration of every control-flow path, and status 0 only with resolution == radius_final.",
   CTLNOTE + "The log bound on the number of reductions is the arithmetic consequence of the proved per-step factor, not a solver result.", "5/C18, 4/H-TR"),
 "C19": mc("symbolic execution of the real _set_default_constants/_set_default_options/minimize over z3 LRA with symbolic supplied values, enumerated key subsets; oracle = transcribed domain table",
   "For every enumerated subset of supplied keys (each coupled pair in all 3 non-empty subsets, each single key, none, all 19; pairs of groups in thorough) and EVERY finite value of the supplied floats, z3 proves: ValueError iff a documented restriction is violated; otherwise the completed settings satisfy every documented domain and relation, supplied values are kept, unsupplied keys whose partner is unsupplied take the documented default; unknown names only warn and do not alter the run. Integer options over an enumerated boundary lattice, n in 1..2 (quick) / 1..5.",
   TRUSTED + "The specification table (harness/opt.py) is transcribed from the minimize docstring and the ValueError messages; NaN/inf supplied values excluded.", "5/C19, 4/H-OPT"),
 "C20": mc("bounded symbolic execution of whole runs (z3 LRA) with the callback stopping at every possible call (both continuations explored)",
   "On every path with a callback (positional and keyword forms): exactly one call per evaluation, argument in user variables inside the bounds, fun passed is the objective value of that point; on the path where the callback raises at call k, minimize returns exactly that point (and fun) with nfev = k and status 3 - since both continuations of every call are explored, the argument is literally 'the point minimize would return if it stopped now'. " + CTL,
   CTLNOTE + "With inconsistent bounds / all variables fixed the status stays -1 / 2. Callable objects/partials and callbacks overwriting the array are in the thorough tier.", "5/C20"),
 "C12": mc("symbolic execution of the real Models/Quadratic code (real eigh on concrete geometry) with every recorded function value symbolic; z3 LRA decides |model(x_k) - value_k| <= tol for all values",
   "For seeded histories (quick: 10 shapes n<=2, npt n+1..(n+1)(n+2)/2, 6 operations; thorough: n<=3, 14 operations, 6 seeds) of replacements (including replacement by a very close point), base shifts and resets that keep the set well conditioned, with 0-2 constraint models, z3 proves for EVERY recorded value in [-1,1] at every step that each model reproduces the value recorded at each interpolation point (tol 1e-7). The 'recorded value belongs to the evaluated point' half is monitored in the control-flow harness.",
   TRUSTED + "Geometry concrete because LAPACK must run (stated bound); steps flagged ill_conditioned (set singular to machine precision) are outside the property's 'keeps the set poised' quantifier.", "5/C12, 4/H-MOD"),
 "C13": mc("symbolic execution of the real Models/Quadratic code vs an exact-rational (fractions.Fraction) implementation of the least-Frobenius-norm / symmetric-Broyden recursion carrying the same symbolic values; z3 LRA",
   "Same histories as C12: after every operation the code's model value, gradient (at (n+1)(n+2)/2+1 probe points) and Hessian equal, for EVERY value vector, the exact rational reference (tol 1e-7), and the views agree: m(x) = m(0)+g.x+x'Hx/2, hess_prod(v) = hess() v, curv(v) = v'hess() v; base shifts leave the function unchanged.",
   TRUSTED + "The rational reference (harness/mod.py: kkt, fr_solve, RefQuad) is the trusted oracle; probe points concrete.", "5/C13, 4/H-MOD"),
 "C14": mc("symbolic execution of the real Models.determinants with a symbolic candidate point; z3 nlsat decides the degree-4 polynomial identity against the exact cofactor expansion of det W'/det W",
   "For poised sets reached by seeded histories (n<=2, npt<=5 quick; n<=3 thorough) and EVERY candidate point within 2 radii, sigma from determinants(x) and determinants(x,k) equals, for every index k, the ratio of the two determinants expanded exactly (Fraction minors) along the replaced row and column (relative tol 1e-6).",
   TRUSTED + "nlsat time-outs are reported as inconclusive.", "5/C14, 4/H-MOD"),
 "C10": mc("paired symbolic execution (z3 UFLRA) of the real problem layer on a statement and its restatement sharing the same uninterpreted user functions; assertion: identical Problem interface",
   "For each restatement pair - fixed variables left in / eliminated by hand (1 and 2 fixed), Bounds / (n,2) array, NonlinearConstraint / dict (ineq, eq), one two-sided / two one-sided (linear, nonlinear), grouped / ungrouped (linear, nonlinear), scale=True / explicitly rescaled unit-box problem (n<=2) - with symbolic bounds, x0, limits and internal point, z3 proves the interface the solver sees is identical: n, x0, bounds, a_ub/b_ub/a_eq/b_eq row by row, type and counts, the values and violation returned for ANY internal point, and the user-space image of the returned point. 'Same sequence of evaluated points and result' follows because TrustRegion/Models touch the problem only through that interface and are deterministic (code-structure argument, stated assumption).",
   TRUSTED + "Two one-sided constraints are written in the order the internal form lists them (nonlinear: lower then upper; linear: upper then lower); two-sided grouped/ungrouped regrouping (which permutes internal rows) is in the thorough tier only and reported as representation difference. The residual clause is covered by C17/C02 checks in H-PB.", "5/C10"),
 "C11": mc("bounded symbolic execution of whole runs (z3 LRA): argument copies before/after, a second (and a nested) call on the same path fed from a tape of the first call's values and choices, snapshot of module/class-level containers; interleaved interpolation sets in the model harness",
   "PARTIAL. On every control-flow path: x0, the options dict, the bounds arrays (also with NaN entries, Bounds object and (n,2) array) and the linear-constraint arrays are unchanged after the call; no module- or class-level container of the package changes during a call; a repeated call consumes the same values, evaluates the same points and returns the identical result; a call nested in the objective of another leaves the outer run unchanged; two interpolation sets driven alternately do not interfere (the 1.1.3 cache scenario, real build_system). NOT covered: interleavings of concurrent calls on a thread pool - a schedule of CPython threads inside numpy cannot be ranged over by a solver encoding of this code; the absence of shared mutable state shown above is the part within reach.",
   CTLNOTE, "5/C11, 6"),
}
NA_REASON = {
 "C04": "limit point of hundreds of floating-point SQP iterations through LAPACK; no bounded symbolic encoding decides convergence to the minimiser (DESIGN.md section 6)",
}
checks, na = [], []
for p in props:
    if p in CLAIMS:
        c = CLAIMS[p]
        checks.append(dict(property_id=p, quick_cmd=f"./check {p} --tier quick", thorough_cmd=f"./check {p} --tier thorough",
                           evidence_file=f"evidence/{p}.json", replay_cmd_template=f"./check {p} --replay {{path}}",
                           engine="sx", technique=c["technique"],
                           level_claimed=dict(category="model_checking", text=c["text"], design_ref=c["design"]),
                           level_note=c["note"]))
    else:
        na.append(dict(property_id=p, reason=NA_REASON.get(p, "harness not built yet in this session (planned, see DESIGN.md section 5); not claimed until its check runs")))
m = dict(version=1, setup_cmd="./setup.sh",
         hooks=dict(guard="COBYQA_VERIF", enable="none needed: the checks load /repo's working-tree sources in-process and rebind module globals there; no hook code exists in /repo",
                    baseline_off_cmd="cd /repo && /venv/bin/python -m pytest -ra -q -p no:cacheprovider --timeout=900 --continue-on-collection-errors",
                    source_commits=[], add_only=True),
         engines=[dict(name="sx", path="sx/", serves_properties=sorted(CLAIMS), kind_free_text="symbolic execution of the real Python sources (operator overloading inside numpy object arrays, fork-by-replay) over z3; cvc5 for bit-precise lemmas")],
         checks=checks, not_applicable=na,
         notes="All checks: exit 0 held on everything explored, 1 VIOLATION (natively replayed), 2 harness error. Known findings: known_findings.json.")
json.dump(m, open(os.path.join(HERE, "MANIFEST.json"), "w"), indent=1)
print("claimed", sorted(CLAIMS), "n/a", len(na))
