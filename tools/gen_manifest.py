#!/usr/bin/env python3
"""Regenerate MANIFEST.json from the table below (keeps it valid at all times)."""
import json, os
HERE = os.path.dirname(os.path.dirname(os.path.abspath(__file__)))
props = [json.loads(l)["id"] for l in open(os.path.join(HERE, "properties.jsonl"))]

TRUSTED = ("Trusted base: z3 5.1.0; the SX engine (sx/core.py) and numpy proxy (sx/symnp.py, validated against numpy on every run); "
           "scipy's _constraints.py re-loaded under the proxy with VectorFunction/LinearVectorFunction/IdentityVectorFunction modelled "
           "(sx/loader.py); finite arithmetic interpreted as exact real arithmetic, IEEE-754 special values and comparisons exact. ")

CLAIMS = {
 "C03": dict(
   technique="bounded symbolic execution of the real Problem.__call__/best_eval over z3 (LRA/NRA), every (f,v) history up to K evaluations, native replay of counterexamples",
   text=("Bounded model checking by symbolic execution of the real filter/selection code: for every sequence of K<=3 (quick) / K<=4 all kinds, K=5 finite+NaN (thorough) "
         "evaluations with objective in {finite,NaN,+inf,-inf} and violation in {finite>=0,NaN,+inf}, every penalty>=0 and tolerance>0, filter_size in {1,2,3,unbounded}, "
         "z3 proves each clause of the selection rule on every feasible path or returns a history that is replayed on the unmodified code."),
   note=TRUSTED + "Problem.maxcv is replaced on the instance by an injected violation per evaluation; the end-to-end half (OptimizeResult vs evaluation log) is covered by the control-flow harness when present.",
   design="5/C03, 4/H-FILT"),
 "C19": dict(
   technique="symbolic execution of the real _set_default_constants/_set_default_options/minimize over z3 LRA with symbolic supplied values, enumerated key subsets; oracle = transcribed domain table",
   text=("For every enumerated subset of supplied keys (each coupled pair in all 3 non-empty subsets, each single key, none, all 19; pairs of groups in thorough) and EVERY finite value of the supplied floats, "
         "z3 proves: ValueError iff a documented domain/order restriction is violated; otherwise the completed settings satisfy every documented domain and relation, supplied values are kept, "
         "unsupplied keys whose partner is unsupplied take the documented default; unknown names only warn and do not alter the run. Integer options range over an enumerated boundary lattice, n in 1..2 (quick) / 1..5."),
   note=TRUSTED + "The specification table (harness/opt.py) is transcribed from the minimize docstring and the ValueError messages; NaN/inf supplied values excluded. End-to-end shapes stop the run at the first evaluation through the callback.",
   design="5/C19, 4/H-OPT"),
}
NA_REASON = {
 "C04": "limit point of hundreds of floating-point SQP iterations through LAPACK; no bounded symbolic encoding decides convergence to the minimiser (DESIGN.md section 6)",
}
checks, na = [], []
for p in props:
    if p in CLAIMS:
        c = CLAIMS[p]
        checks.append(dict(property_id=p, quick_cmd=f"./check {p} --tier quick", thorough_cmd=f"./check {p} --tier thorough",
                           evidence_file=f"evidence/{p}.json", replay_cmd_template=f"./check {p} --replay {{path}}",
                           engine="sx", technique=c["technique"],
                           level_claimed=dict(category="model_checking", text=c["text"], design_ref=c["design"]),
                           level_note=c["note"]))
    else:
        na.append(dict(property_id=p, reason=NA_REASON.get(p, "harness not built yet in this session (planned, see DESIGN.md section 5); not claimed until its check runs")))
m = dict(version=1, setup_cmd="./setup.sh",
         hooks=dict(guard="COBYQA_VERIF", enable="none needed: the checks load /repo's working-tree sources in-process and rebind module globals there; no hook code exists in /repo",
                    baseline_off_cmd="cd /repo && /venv/bin/python -m pytest -ra -q -p no:cacheprovider --timeout=900 --continue-on-collection-errors",
                    source_commits=[], add_only=True),
         engines=[dict(name="sx", path="sx/", serves_properties=sorted(CLAIMS), kind_free_text="symbolic execution of the real Python sources (operator overloading inside numpy object arrays, fork-by-replay) over z3; cvc5 for bit-precise lemmas")],
         checks=checks, not_applicable=na,
         notes="All checks: exit 0 held on everything explored, 1 VIOLATION (natively replayed), 2 harness error. Known findings: known_findings.json.")
json.dump(m, open(os.path.join(HERE, "MANIFEST.json"), "w"), indent=1)
print("claimed", sorted(CLAIMS), "n/a", len(na))
