#!/bin/bash
# tools/verify_seed.sh <seed-id> <property> [check-args...]
# Confirms a seeded change independently and runs the property's check against it:
#  1. fresh scratch worktree of /repo HEAD; demo must PASS there
#  2. apply patch; repo test-suite must give the baseline result (61 passed, test_fixed allowed to fail or pass)
#  3. demo must FAIL with the patch
#  4. ./check <property> with COBYQA_REPO pointing at the patched tree must exit 1 with a VIOLATION line
# Inputs are taken from /tmp/mut/<seed-id>_out/ (first time) or /verif/seeded/<seed-id>/.
set -u
ID="$1"; PROP="$2"; shift 2
HERE="$(cd "$(dirname "$0")/.." && pwd)"
SRC="/tmp/mut/${ID}_out"
DST="$HERE/seeded/$ID"
[ -d "$SRC" ] || SRC="$DST"
[ -f "$SRC/patch.diff" ] || { echo "no patch for $ID"; exit 2; }
WT="/tmp/seedchk_$ID"
git -C /repo worktree remove --force "$WT" >/dev/null 2>&1
rm -rf "$WT"
git -C /repo worktree add -q --detach "$WT" HEAD || exit 2
cd "$WT"
/venv/bin/python "$SRC/demo.py" >/tmp/seed_${ID}_clean.log 2>&1; CLEAN=$?
if ! git apply "$SRC/patch.diff" 2>/tmp/seed_${ID}_apply.log; then
  echo "PATCH DOES NOT APPLY to HEAD: $(head -2 /tmp/seed_${ID}_apply.log)"; APPLY=fail
else APPLY=ok; fi
TESTS=$(/venv/bin/python -m pytest -q -p no:cacheprovider --timeout=900 2>&1 | tail -1)
/venv/bin/python "$SRC/demo.py" >/tmp/seed_${ID}_mut.log 2>&1; MUT=$?
cd "$HERE"
OUT=$(COBYQA_REPO="$WT" ./check "$PROP" "$@" 2>&1); RC=$?
echo "seed=$ID prop=$PROP apply=$APPLY demo_clean_rc=$CLEAN demo_mutated_rc=$MUT tests='$TESTS' check_rc=$RC"
echo "$OUT" | grep -E "^\[|VIOLATION|what:|HARNESS|KNOWN" | head -8
mkdir -p "$DST"
if [ "$SRC" != "$DST" ]; then cp "$SRC/patch.diff" "$SRC/demo.py" "$DST/"; [ -f "$SRC/meta.json" ] && cp "$SRC/meta.json" "$DST/agent_meta.json"; fi
python3 - "$ID" "$PROP" "$CLEAN" "$MUT" "$TESTS" "$RC" "$DST" "$APPLY" "$(git -C /repo rev-parse --short HEAD)" "$*" <<'EOF'
import json, sys, os
id_, prop, clean, mut, tests, rc, dst, apply_, head, extra = sys.argv[1:11]
agent = {}
p = os.path.join(dst, "agent_meta.json")
if os.path.exists(p):
    try: agent = json.load(open(p))
    except Exception: agent = {}
meta = dict(seed=id_, property=prop, repo_head=head, patch_applies=apply_ == "ok",
            needs_to_manifest=agent.get("needs_to_manifest", ""), summary=agent.get("summary", ""),
            confirmed=dict(demo_on_clean_tree_rc=int(clean), demo_with_patch_rc=int(mut), test_suite_with_patch=tests),
            ran=f"tools/verify_seed.sh {id_} {prop} {extra}".strip(),
            check_exit_code=int(rc), detected=int(rc) == 1)
json.dump(meta, open(os.path.join(dst, "meta.json"), "w"), indent=1)
EOF
git -C /repo worktree remove --force "$WT" >/dev/null 2>&1
rm -rf "$WT"
