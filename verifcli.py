"""./check <ID> [--tier quick|thorough] [--replay FILE] — see DESIGN.md section 7."""
import argparse
import json
import os
import re
import sys
import time
import zlib

HERE = os.path.dirname(os.path.abspath(__file__))
sys.path.insert(0, HERE)
import warnings
warnings.filterwarnings("ignore", category=RuntimeWarning)
import numpy as _np_
_np_.seterr(all="ignore")

EXIT_OK, EXIT_VIOLATION, EXIT_HARNESS = 0, 1, 2


def load_known():
    p = os.path.join(HERE, "known_findings.json")
    if not os.path.exists(p):
        return []
    with open(p) as fh:
        return json.load(fh).get("findings", [])


def match_known(known, prop, key):
    for k in known:
        if k["property"] == prop and re.search(k["match"], key):
            return k
    return None


PARTIAL = [False]


def write_evidence(prop, ev):
    # runs against a scratch tree (COBYQA_REPO) or restricted to some shapes never touch the committed evidence
    d = os.path.join(HERE, "evidence")
    if PARTIAL[0] or os.environ.get("COBYQA_REPO", "/repo") != "/repo":
        d = "/tmp/verif_evidence_scratch"
    os.makedirs(d, exist_ok=True)
    with open(os.path.join(d, f"{prop}.json"), "w") as fh:
        json.dump(ev, fh, indent=1, sort_keys=True, default=str)


def do_replay(prop, path):
    from harness import HARNESSES
    from sx import runner
    with open(path) as fh:
        cand = json.load(fh)
    H = HARNESSES[cand["harness"]]
    cand = dict(cand)
    cand["values"] = runner.unjson_values(cand["values"])
    verdict, detail = runner.native_check(H, cand["shape"], cand)
    print(f"replay {path}: {verdict} {detail}")
    print(f"  property={cand['prop']} clause={cand['clause']} shape={json.dumps(cand['shape'], sort_keys=True)}")
    print(f"  choices={cand['choices']}")
    print(f"  values={cand['values']}")
    if verdict == "reproduced":
        print(f"VIOLATION property={cand['prop']} replay={path}")
        return EXIT_VIOLATION
    return EXIT_OK


def main(argv=None):
    ap = argparse.ArgumentParser()
    ap.add_argument("prop")
    ap.add_argument("--tier", default=os.environ.get("VERIF_TIER", "quick"))
    ap.add_argument("--replay")
    ap.add_argument("--jobs", type=int, default=int(os.environ.get("VERIF_JOBS", "0")))
    ap.add_argument("--budget", type=float, default=None, help="wall-clock cap in seconds")
    ap.add_argument("--only", help="restrict to one harness name")
    ap.add_argument("--shape", help="JSON: restrict to shapes containing these key/values")
    ap.add_argument("--verbose", action="store_true")
    args = ap.parse_args(argv)
    prop = args.prop
    tier = args.tier if args.tier in ("quick", "thorough") else "quick"
    seed = int(os.environ.get("VERIF_SEED", "0") or 0)
    t0 = time.time()

    from sx import loader, runner, selftest
    import harness as hreg

    if args.replay:
        return do_replay(prop, args.replay)

    if prop not in hreg.SERVES:
        print(f"property {prop} is not claimed (see MANIFEST.json not_applicable)")
        return EXIT_HARNESS

    # translator validation, part 1: the numpy proxy against numpy
    st = selftest.run(seed)
    if st["failures"]:
        print("HARNESS-ERROR proxy self-test failed:", st["failures"][:3])
        return EXIT_HARNESS

    try:
        loader.load(True)
        loader.load(False)
    except loader.MissingName as ex:
        print(f"HARNESS-ERROR {ex}")
        return EXIT_HARNESS

    jobs = args.jobs or min(16, os.cpu_count() or 1)
    budget = args.budget or (600 if tier == "quick" else 3000)
    deadline = t0 + budget
    tasks = []
    hnames = [h for h in hreg.SERVES[prop] if not args.only or h == args.only]
    filt = json.loads(args.shape) if args.shape else None
    PARTIAL[0] = bool(filt or args.only)
    for h in hnames:
        H = hreg.HARNESSES[h]
        for s in H.shapes(tier, prop):
            if filt and any(s.get(k) != v for k, v in filt.items()):
                continue
            tasks.append((h, s))
    opts = dict(seed=seed, deadline=deadline, witness_rate=0.02 if tier == "quick" else 0.01,
                task_paths=400 if tier == "quick" else 1500)
    try:
        total = runner.explore_all(tasks, [prop], jobs, opts)
    except loader.MissingName as ex:
        print(f"HARNESS-ERROR {ex}")
        return EXIT_HARNESS

    known = load_known()
    violations, known_hits, unreplayed = [], [], []
    os.makedirs(os.path.join(HERE, "replays"), exist_ok=True)
    for fn in os.listdir(os.path.join(HERE, "replays")):
        if fn.startswith(prop + "_") and not filt and not args.only:
            os.unlink(os.path.join(HERE, "replays", fn))
    reproduced = 0
    for key, cands in sorted(total["cands"].items()):
        ok = None
        details = []
        for cand in cands:
            H = hreg.HARNESSES[cand["harness"]]
            c2 = dict(cand)
            c2["values"] = runner.unjson_values(cand["values"])
            verdict, detail = runner.native_check(H, cand["shape"], c2)
            details.append(f"{verdict} {detail}".strip())
            if verdict == "reproduced":
                ok = cand
                break
        if ok is None:
            unreplayed.append((key, details))
            continue
        reproduced += 1
        k = match_known(known, prop, key)
        if k:
            known_hits.append((key, k))
        else:
            name = f"{prop}_{zlib.crc32(key.encode()) & 0xffffffff:08x}.json"
            path = os.path.join(HERE, "replays", name)
            with open(path, "w") as fh:
                json.dump(ok, fh, indent=1, sort_keys=True)
            violations.append((key, path, ok))

    # reachability goals
    missing_goals = []
    for h in hnames:
        H = hreg.HARNESSES[h]
        req = getattr(H, "required_goals", lambda tier, prop: [])(tier, prop)
        if not filt:
            for g in req:
                if total["goals"].get(g, 0) == 0:
                    missing_goals.append(f"{h}:{g}")

    wall = time.time() - t0
    st_ = total["stats"]
    Hs = [hreg.HARNESSES[h] for h in hnames]
    samples = list(total["samples"])
    for key, path, cand in violations[:2]:
        samples.append(dict(kind="counterexample", key=key, replay=path, values=cand["values"],
                            choices=cand["choices"]))
    for key, k in known_hits[:2]:
        samples.append(dict(kind="known-finding", key=key, what=k["what"]))
    if not samples:
        samples = [dict(note="no witness sampled", shapes=[t[1] for t in tasks[:3]])]
    complete = total["unexplored_prefixes"] == 0 and total["inconclusive"] == 0 and not st_.get("timed_out_branches")
    ev = dict(
        property_id=prop, tier=tier, seed=seed, level="model_checking", wall_s=round(wall, 2),
        violations=len(violations),
        coverage=dict(
            states=max(total["paths"], 0), transitions=st_.get("branches", 0) + total["paths"],
            traces_validated_against_impl=total["witnesses_ok"] + reproduced,
            samples=samples,
            obligations=total["claims"], discharged=total["discharged"],
            exhaustive=bool(complete),
            explanation=("bounded symbolic execution of the real functions listed in functions_encoded; "
                         "states = feasible paths completed, transitions = solver-decided branch decisions + path ends; "
                         "obligations = property assertions issued on those paths, discharged = those the solver "
                         "answered unsat for the negation; exhaustive means every path inside the stated bounds was "
                         "completed and every assertion decided"),
            functions_encoded=total["funcs"],
            harness_entry_points=sorted({f for H in Hs for f in H.functions}),
            stubs=sorted({s for H in Hs for s in H.stubs}),
            bounds=dict(shapes=len(tasks), shape_list=[t[1] for t in tasks][:60],
                        tier_bounds={H.name: getattr(H, "bounds", {}).get(tier, "") for H in Hs}),
            paths_completed=total["paths"], paths_aborted_infeasible=st_.get("aborted", 0),
            unexplored_prefixes=total["unexplored_prefixes"],
            inconclusive_assertions=total["inconclusive"], inconclusive_list=total["inconclusive_list"],
            timed_out_branch_queries=st_.get("timed_out_branches", 0),
            assertions_by_clause=total["claims_by_clause"], paths_by_shape=total["paths_by_shape"],
            counterexamples_found=total["cex"], counterexample_signatures=len(total["cands"]),
            counterexamples_reproduced_natively=reproduced,
            counterexamples_not_reproduced=[dict(key=k, attempts=d) for k, d in unreplayed][:10],
            known_findings_hit=[dict(key=k, what=kk["what"]) for k, kk in known_hits],
            goals_reached=total["goals"], goals_missing=missing_goals,
            witness_paths_validated=total["witnesses_ok"], witness_paths_diverged=total["witnesses_diverged"],
            witness_paths_mismatch=total["witnesses_mismatch"], mismatch_samples=total["mismatch_samples"],
            solver=dict(queries=st_.get("queries", 0), sat=st_.get("sat", 0), unsat=st_.get("unsat", 0),
                        unknown=st_.get("unknown", 0), solver_s=round(st_.get("solver_s", 0.0), 2),
                        engine="z3 %s" % __import__("z3").get_version_string()),
            float64_second_stage=dict(assertions_rechecked_bit_precisely=total["fp_checked"], unsat=total["fp_unsat"],
                                      sat=total["fp_sat"], other=total["fp_other"], solver_s=round(total["fp_solver_s"], 1)),
            proxy_selftest=dict(cases=st["cases"], failures=0),
            repo_files=loader.file_hashes(),
            errors=total["errors"],
        ),
        assumptions=sorted({a for H in Hs for a in H.assumptions}) + [
            "finite arithmetic is exact real arithmetic (no rounding/overflow); comparisons, NaN, +-inf follow IEEE-754 exactly",
            "scipy Bounds/LinearConstraint/PreparedConstraint are scipy's own source re-loaded under the numpy proxy; "
            "VectorFunction/LinearVectorFunction/IdentityVectorFunction are modelled (sx/loader.py)",
        ],
    )
    write_evidence(prop, ev)

    print(f"[{prop}] tier={tier} shapes={len(tasks)} paths={total['paths']} assertions={total['claims']} "
          f"discharged={total['discharged']} cex={total['cex']} inconclusive={total['inconclusive']} "
          f"unexplored={total['unexplored_prefixes']} witnesses_ok={total['witnesses_ok']} "
          f"diverged={total['witnesses_diverged']} mismatch={total['witnesses_mismatch']} "
          f"queries={st_.get('queries', 0)} solver_s={st_.get('solver_s', 0):.1f} wall={wall:.1f}s")
    if args.verbose:
        for k, v in sorted(total["paths_by_shape"].items(), key=lambda kv: -kv[1]):
            print(f"  {v:8d} paths  {k}")
    for key, k in known_hits:
        print(f"KNOWN-FINDING: property={prop} {k['what']} [{key}]")
    rc = EXIT_OK
    if total["errors"]:
        print("HARNESS-ERROR", total["errors"][0])
        rc = EXIT_HARNESS
    if missing_goals:
        print("HARNESS-ERROR unreached reachability goals:", missing_goals)
        rc = EXIT_HARNESS
    att = total["witnesses_ok"] + total["witnesses_mismatch"]
    if att and total["witnesses_mismatch"] > 0.2 * att:
        print("HARNESS-ERROR symbolic/native disagreement on sampled witness paths:",
              json.dumps(total["mismatch_samples"][:1], default=str)[:800])
        rc = EXIT_HARNESS
    if unreplayed and not violations:
        print("HARNESS-ERROR counterexamples that do not replay natively (encoding mismatch):",
              [(k, d) for k, d in unreplayed][:3])
        rc = EXIT_HARNESS
    if total["paths"] == 0:
        print("HARNESS-ERROR no feasible path explored")
        rc = EXIT_HARNESS
    for key, path, cand in violations:
        print(f"VIOLATION property={prop} replay={path}")
        print(f"  what: {key}")
        rc = EXIT_VIOLATION
    return rc


if __name__ == "__main__":
    sys.exit(main())
