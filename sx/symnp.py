"""numpy proxy for symbolic execution (DESIGN.md 2.2).

Invariant: every floating array that the code under analysis creates or
receives is an ``ndarray`` of dtype ``object`` whose elements are Python
floats or ``SymFloat``.  numpy itself then does indexing, slicing, masks,
broadcasting, ``@``, ``np.block`` ... by calling the element operators.
The proxy overrides creation functions (so that the invariant holds) and the
functions whose object-dtype behaviour is missing or not IEEE (NaN handling).
Everything else is forwarded; float64 results are converted back to object.
"""
import builtins
import math

import numpy as _np
import z3

from . import core
from .core import SymFloat, SymBool, FIN, NAN, PINF, NINF, lift, ite


def _is_symscalar(x):
    return isinstance(x, (SymFloat, SymBool))


def _has_sym(x):
    if isinstance(x, SymFloat):
        return True
    if isinstance(x, _np.ndarray):
        if x.dtype != object:
            return False
        for v in x.ravel():
            if isinstance(v, SymFloat):
                return True
        return False
    if isinstance(x, (list, tuple)):
        return any(_has_sym(y) for y in x)
    return False


def obj(x):
    """Float-like -> object array (or leave non-float arrays alone)."""
    if isinstance(x, _np.ndarray):
        if x.dtype == object:
            return x
        if x.dtype.kind == "f":
            return x.astype(object)
        return x
    if isinstance(x, SymFloat):
        a = _np.empty((), dtype=object)
        a[()] = x
        return a
    if isinstance(x, (_np.floating,)):
        return float(x)
    return x


def conc(x):
    """All-concrete object array -> float64 array (for LAPACK / real numpy)."""
    if isinstance(x, _np.ndarray) and x.dtype == object:
        if _has_sym(x):
            raise core.EngineError("symbolic array reached a concrete-only routine")
        return x.astype(_np.float64)
    if isinstance(x, SymFloat):
        c = x.concrete()
        if c is None:
            raise core.EngineError("symbolic scalar reached a concrete-only routine")
        return c
    if isinstance(x, (list, tuple)):
        return type(x)(conc(v) for v in x)
    return x


def _post(r):
    if isinstance(r, _np.ndarray):
        if r.dtype.kind == "f":
            return r.astype(object)
        return r
    if isinstance(r, _np.floating):
        return float(r)
    if isinstance(r, tuple):
        return tuple(_post(v) for v in r)
    if isinstance(r, list):
        return [_post(v) for v in r]
    return r


def _pre(a):
    # float64 arrays may come from constants computed at import time; make them object
    if isinstance(a, _np.ndarray) and a.dtype.kind == "f":
        return a.astype(object)
    return a


def _wrap(f):
    def g(*a, **k):
        try:
            return _post(f(*[_pre(v) for v in a], **{kk: _pre(v) for kk, v in k.items()}))
        except TypeError:
            # numpy has no object-dtype loop for this function: retry on float64 if nothing is symbolic
            if any(_has_sym(v) for v in a) or any(_has_sym(v) for v in k.values()):
                raise core.EngineError(f"numpy.{getattr(f, '__name__', '?')} is not modelled for symbolic arrays")
            return _post(f(*[conc(v) for v in a], **{kk: conc(v) for kk, v in k.items()}))
    g.__name__ = getattr(f, "__name__", "wrapped")
    return g


def _isnan1(x):
    if isinstance(x, SymFloat):
        return x.k == NAN
    return isinstance(x, float) and x != x or (isinstance(x, _np.floating) and bool(_np.isnan(x)))


def _isfin1(x):
    if isinstance(x, SymFloat):
        return x.k == FIN
    return math.isfinite(x)


def _isinf1(x):
    if isinstance(x, SymFloat):
        return x.k in (PINF, NINF)
    return math.isinf(x)


def _f(x):
    """element -> python float or SymFloat"""
    if isinstance(x, SymFloat):
        return x
    if isinstance(x, (bool, _np.bool_)):
        return float(x)
    if isinstance(x, (int, float, _np.floating, _np.integer)):
        return float(x)
    if isinstance(x, _np.ndarray) and x.ndim == 0:
        return _f(x[()])
    raise TypeError(f"not a float element: {type(x)}")


def max2(a, b):
    """numpy.maximum on scalars: NaN propagates."""
    a, b = _f(a), _f(b)
    if _isnan1(a):
        return a
    if _isnan1(b):
        return b
    if not (isinstance(a, SymFloat) or isinstance(b, SymFloat)):
        return a if a >= b else b
    return ite(lift(a) >= b, a, b)


def min2(a, b):
    a, b = _f(a), _f(b)
    if _isnan1(a):
        return a
    if _isnan1(b):
        return b
    if not (isinstance(a, SymFloat) or isinstance(b, SymFloat)):
        return a if a <= b else b
    return ite(lift(a) <= b, a, b)


_vmax = _np.frompyfunc(max2, 2, 1)
_vmin = _np.frompyfunc(min2, 2, 1)


def _sqrt1(x):
    x = _f(x)
    if isinstance(x, SymFloat):
        return x.sqrt()
    if x != x or x < 0:
        return math.nan
    return math.sqrt(x)


def _abs1(x):
    x = _f(x)
    return abs(x)


def _sign1(x):
    x = _f(x)
    if isinstance(x, SymFloat):
        if x.k == NAN:
            return x
        if x.k == PINF:
            return 1.0
        if x.k == NINF:
            return -1.0
        if bool(x > 0.0):
            return 1.0
        if bool(x < 0.0):
            return -1.0
        return 0.0
    return float(_np.sign(x))


_vsqrt = _np.frompyfunc(_sqrt1, 1, 1)
_vabs = _np.frompyfunc(_abs1, 1, 1)
_vsign = _np.frompyfunc(_sign1, 1, 1)


def _scalar_or_array(r, like):
    if isinstance(like, _np.ndarray) and like.ndim > 0:
        return r
    if isinstance(r, _np.ndarray) and r.ndim == 0:
        return r[()]
    return r


def _dt(d):
    """dtype requested by the code -> dtype we use."""
    if d is None:
        return None
    if d is s_float or d is float or d is _np.float64 or d == _np.float64:
        return object
    return d


class _Proxy:
    """Stands in for the ``numpy`` module inside the analysed modules."""

    def __getattr__(self, name):
        v = getattr(_np, name)
        if callable(v) and not isinstance(v, type):
            return _wrap(v)
        return v

    # -- creation: always object dtype for floats ---------------------------
    def zeros(self, shape, dtype=None, **kw):
        d = _dt(dtype)
        if d not in (None, object):
            return _np.zeros(shape, dtype=d)
        a = _np.empty(shape, dtype=object)
        a[...] = 0.0
        return a

    def ones(self, shape, dtype=None, **kw):
        d = _dt(dtype)
        if d not in (None, object):
            return _np.ones(shape, dtype=d)
        a = _np.empty(shape, dtype=object)
        a[...] = 1.0
        return a

    def empty(self, shape, dtype=None, **kw):
        if dtype is None or dtype is float or dtype is s_float or dtype is _np.float64:
            a = _np.empty(shape, dtype=object)
            a[...] = 0.0
            return a
        if isinstance(dtype, type) and not issubclass(dtype, (int, float, _np.generic)):
            return _np.empty(shape, dtype=object)      # e.g. dtype=Quadratic
        return _np.empty(shape, dtype=dtype)

    def full(self, shape, fill, dtype=None, **kw):
        if isinstance(fill, (bool, _np.bool_)) or _dt(dtype) not in (None, object):
            return _np.full(shape, fill, dtype=_dt(dtype))
        a = _np.empty(shape, dtype=object)
        a[...] = _f(fill)
        return a

    def full_like(self, x, fill, dtype=None, **kw):
        return self.full(_np.shape(x), fill, dtype)

    def zeros_like(self, x, dtype=None, **kw):
        if isinstance(x, _np.ndarray) and x.dtype.kind in "biu" and dtype is None:
            return _np.zeros_like(x)
        return self.zeros(_np.shape(x), dtype)

    def ones_like(self, x, dtype=None, **kw):
        if isinstance(x, _np.ndarray) and x.dtype.kind in "biu" and dtype is None:
            return _np.ones_like(x)
        return self.ones(_np.shape(x), dtype)

    def empty_like(self, x, dtype=None, **kw):
        return self.zeros_like(x, dtype)

    def eye(self, *a, **k):
        return _np.eye(*a, **k).astype(object)

    def identity(self, n, **k):
        return _np.identity(n).astype(object)

    def array(self, x, dtype=None, copy=True, **kw):
        d = _dt(dtype)
        if d is not None and d is not object:
            return _np.array(x, dtype=d, **kw)
        if isinstance(x, SymFloat):
            a = _np.empty((), dtype=object)
            a[()] = x
            return a
        if isinstance(x, _np.ndarray):
            if x.dtype == object:
                return _np.array(x, dtype=object, copy=True)
            if x.dtype.kind in "fiu" and (d is object or x.dtype.kind == "f"):
                return x.astype(object)
            if d is object:
                return x.astype(_np.float64).astype(object)
            return _np.array(x, **kw)
        r = _np.array(x, dtype=object if (d is object or _has_sym(x)) else None, **kw)
        if r.dtype.kind == "f":
            r = r.astype(object)
        elif d is object and r.dtype == object:
            # python ints/bools in a float-typed array become floats
            flat = r.ravel()
            for i, v in enumerate(flat):
                if isinstance(v, (int, bool, _np.integer, _np.bool_, _np.floating)):
                    flat[i] = float(v)
        return r

    def asarray(self, x, dtype=None, **kw):
        d = _dt(dtype)
        if isinstance(x, _np.ndarray):
            if x.dtype == object and d in (None, object):
                return x
            if x.dtype.kind == "f" and d in (None, object):
                return x.astype(object)
            if d is object:
                return x.astype(_np.float64).astype(object)
            if d is None:
                return x
            return _np.asarray(x, dtype=d)
        return self.array(x, dtype)

    def asanyarray(self, x, dtype=None, **kw):
        return self.asarray(x, dtype)

    def ascontiguousarray(self, x, dtype=None, **kw):
        return self.asarray(x, dtype)

    def atleast_1d(self, *xs):
        rs = [_np.atleast_1d(self.asarray(x)) for x in xs]
        return rs[0] if len(rs) == 1 else rs

    def atleast_2d(self, *xs):
        rs = [_np.atleast_2d(self.asarray(x)) for x in xs]
        return rs[0] if len(rs) == 1 else rs

    def copy(self, x, **kw):
        x = self.asarray(x)
        return _np.array(x, copy=True)

    def squeeze(self, x, axis=None):
        if isinstance(x, SymFloat):
            return obj(x)
        return _post(_np.squeeze(self.asarray(x), axis=axis))

    def linspace(self, start, stop, num=50, **kw):
        if isinstance(start, SymFloat) or isinstance(stop, SymFloat):
            num = int(num)
            out = _np.empty(num, dtype=object)
            if num == 1:
                out[0] = start
                return out
            step = (stop - start) / float(num - 1)
            for i in range(num):
                out[i] = start + float(i) * step
            out[num - 1] = stop
            return out
        return _np.linspace(float(start), float(stop), int(num), **kw).astype(object)

    def diag(self, v, k=0):
        return _post(_np.diag(self.asarray(v), k))

    # -- predicates ----------------------------------------------------------
    def _pred(self, x, f1, npf):
        if isinstance(x, SymFloat):
            return f1(x)
        if isinstance(x, _np.ndarray):
            if x.dtype == object:
                return _np.array([bool(f1(_f(v))) for v in x.ravel()], dtype=bool).reshape(x.shape)
            return npf(x)
        if isinstance(x, (list, tuple)):
            return self._pred(self.asarray(x), f1, npf)
        return npf(x)

    def isnan(self, x):
        return self._pred(x, _isnan1, _np.isnan)

    def isfinite(self, x):
        return self._pred(x, _isfin1, _np.isfinite)

    def isinf(self, x):
        return self._pred(x, _isinf1, _np.isinf)

    def isneginf(self, x):
        return self._pred(x, lambda v: (v.k == NINF) if isinstance(v, SymFloat) else (v == -math.inf), _np.isneginf)

    def isposinf(self, x):
        return self._pred(x, lambda v: (v.k == PINF) if isinstance(v, SymFloat) else (v == math.inf), _np.isposinf)

    def nan_to_num(self, x, copy=True, nan=0.0, posinf=None, neginf=None):
        big = float(_np.finfo(float).max)
        posinf = big if posinf is None else posinf
        neginf = -big if neginf is None else neginf

        def one(v):
            v = _f(v)
            if _isnan1(v):
                return nan
            if isinstance(v, SymFloat):
                return posinf if v.k == PINF else neginf if v.k == NINF else v
            return posinf if v == math.inf else neginf if v == -math.inf else v
        if isinstance(x, (SymFloat, int, float)):
            return one(x)
        x = self.asarray(x)
        if x.dtype != object:
            return _post(_np.nan_to_num(x, nan=nan, posinf=posinf, neginf=neginf))
        out = _np.empty(x.shape, dtype=object)
        for idx in _np.ndindex(*x.shape):
            out[idx] = one(x[idx])
        return out if x.ndim else out[()]

    def isclose(self, a, b, rtol=1e-05, atol=1e-08, equal_nan=False):
        a, b = self.asarray(a), self.asarray(b)
        if not (_has_sym(a) or _has_sym(b)):
            return _np.isclose(conc(a) if a.dtype == object else a, conc(b) if b.dtype == object else b,
                               rtol=rtol, atol=atol, equal_nan=equal_nan)
        a, b = _np.broadcast_arrays(a, b)
        out = _np.empty(a.shape, dtype=bool)
        for idx in _np.ndindex(*a.shape):
            u, v = _f(a[idx]), _f(b[idx])
            if _isnan1(u) or _isnan1(v):
                out[idx] = bool(equal_nan and _isnan1(u) and _isnan1(v))
            elif not _isfin1(u) or not _isfin1(v):
                out[idx] = bool(lift(u) == v)
            else:
                out[idx] = bool(abs(lift(u) - v) <= atol + rtol * abs(lift(v)))
        return out

    def allclose(self, a, b, rtol=1e-05, atol=1e-08, equal_nan=False):
        return bool(_np.all(self.isclose(a, b, rtol=rtol, atol=atol, equal_nan=equal_nan)))

    # -- elementwise -----------------------------------------------------------
    def maximum(self, a, b):
        r = _vmax(self.asarray(a), self.asarray(b))
        return _scalar_or_array(r, a if isinstance(a, _np.ndarray) and a.ndim else b)

    def minimum(self, a, b):
        r = _vmin(self.asarray(a), self.asarray(b))
        return _scalar_or_array(r, a if isinstance(a, _np.ndarray) and a.ndim else b)

    def clip(self, x, lo, hi):
        return self.minimum(self.maximum(x, lo), hi)

    def abs(self, x):
        if isinstance(x, SymFloat):
            return abs(x)
        if isinstance(x, (int, float)):
            return builtins.abs(x)
        x = self.asarray(x)
        if x.dtype != object:
            return _np.abs(x)
        return _scalar_or_array(_vabs(x), x)

    absolute = abs
    fabs = abs

    def sqrt(self, x):
        if isinstance(x, SymFloat):
            return x.sqrt()
        if isinstance(x, (int, float)):
            return _sqrt1(x)
        x = self.asarray(x)
        return _scalar_or_array(_vsqrt(x), x)

    def sign(self, x):
        if isinstance(x, (SymFloat, int, float)):
            return _sign1(x)
        x = self.asarray(x)
        return _scalar_or_array(_vsign(x), x)

    def square(self, x):
        return x * x

    # -- reductions with IEEE semantics ----------------------------------------
    def _reduce(self, x, op2, initial, axis):
        x = self.asarray(x)
        if x.dtype != object and x.dtype.kind in "iub" and not isinstance(initial, (float, SymFloat)):
            f = _np.max if op2 is max2 else _np.min
            kw = {} if initial is None else {"initial": initial}
            return f(x, axis=axis, **kw)
        if axis is not None and x.ndim > 1:
            x = _np.moveaxis(x, axis, 0)
            out = _np.empty(x.shape[1:], dtype=object)
            for idx in _np.ndindex(*x.shape[1:]):
                out[idx] = self._reduce(x[(slice(None),) + idx], op2, initial, None)
            return out
        vals = [_f(v) for v in x.ravel()]
        if initial is not None:
            vals = [_f(initial)] + vals
        if not vals:
            raise ValueError("zero-size array to reduction operation which has no identity")
        r = vals[0]
        for v in vals[1:]:
            r = op2(r, v)
        return r

    def max(self, x, axis=None, initial=None, **kw):
        return self._reduce(x, max2, initial, axis)

    def min(self, x, axis=None, initial=None, **kw):
        return self._reduce(x, min2, initial, axis)

    amax = max
    amin = min

    def _nanreduce(self, x, op2, axis):
        x = self.asarray(x)
        if axis is not None and x.ndim > 1:
            x = _np.moveaxis(x, axis, 0)
            out = _np.empty(x.shape[1:], dtype=object)
            for idx in _np.ndindex(*x.shape[1:]):
                out[idx] = self._nanreduce(x[(slice(None),) + idx], op2, None)
            return out
        vals = [_f(v) for v in x.ravel()]
        vals = [v for v in vals if not _isnan1(v)]
        if not vals:
            return math.nan
        r = vals[0]
        for v in vals[1:]:
            r = op2(r, v)
        return r

    def nanmax(self, x, axis=None, **kw):
        return self._nanreduce(x, max2, axis)

    def nanmin(self, x, axis=None, **kw):
        return self._nanreduce(x, min2, axis)

    def _arg(self, x, better):
        x = self.asarray(x)
        vals = [_f(v) for v in x.ravel()]
        if not vals:
            raise ValueError("attempt to get argmax of an empty sequence")
        for i, v in enumerate(vals):        # numpy: the first NaN wins
            if _isnan1(v):
                return i
        best = 0
        for i in range(1, len(vals)):
            if bool(better(vals[i], vals[best])):
                best = i
        return best

    def argmax(self, x, axis=None, **kw):
        assert axis is None
        return self._arg(x, lambda a, b: lift(a) > b)

    def argmin(self, x, axis=None, **kw):
        assert axis is None
        return self._arg(x, lambda a, b: lift(a) < b)

    def sum(self, x, axis=None, **kw):
        x = self.asarray(x)
        if x.dtype != object:
            return _np.sum(x, axis=axis, **kw)
        if x.size == 0 and axis is None:
            return 0.0
        r = _np.sum(x, axis=axis, **kw)
        if isinstance(r, _np.ndarray) and r.dtype != object and r.dtype.kind == "f":
            r = r.astype(object)
        if isinstance(r, (int,)):
            return float(r)
        return r

    def dot(self, a, b):
        return _post(_np.dot(self.asarray(a), self.asarray(b)))

    def inner(self, a, b):
        return _post(_np.inner(self.asarray(a), self.asarray(b)))

    def outer(self, a, b):
        return _post(_np.outer(self.asarray(a), self.asarray(b)))

    def array_equal(self, a, b, **kw):
        a = self.asarray(a)
        b = self.asarray(b)
        if a.shape != b.shape:
            return False
        for u, v in zip(a.ravel(), b.ravel()):
            if isinstance(u, (SymFloat,)) or isinstance(v, SymFloat):
                if not bool(lift(u) == v):
                    return False
            else:
                if not (u == v):
                    return False
        return True

    def count_nonzero(self, x, axis=None, **kw):
        x = _np.asarray(x) if not isinstance(x, _np.ndarray) else x
        if x.dtype == object:
            assert axis is None
            return builtins.sum(1 for v in x.ravel() if (bool(v != 0.0) if isinstance(v, SymFloat) else bool(v)))
        return _np.count_nonzero(x, axis=axis, **kw)

    def any(self, x, *a, **k):
        return _np.any(x, *a, **k)

    def all(self, x, *a, **k):
        return _np.all(x, *a, **k)

    def isscalar(self, x):
        return isinstance(x, SymFloat) or _np.isscalar(x)

    @property
    def r_(self):
        return _RClass(_np.r_)

    @property
    def c_(self):
        return _RClass(_np.c_)


class _RClass:
    def __init__(self, real):
        self.real = real

    def __getitem__(self, key):
        if not isinstance(key, tuple):
            key = (key,)
        key = tuple(_pre(k) if isinstance(k, _np.ndarray) else k for k in key)
        return _post(self.real[key])


class _Linalg:
    LinAlgError = _np.linalg.LinAlgError

    def __getattr__(self, name):
        f = getattr(_np.linalg, name)
        if callable(f) and not isinstance(f, type):
            def g(*a, **k):
                return _post(f(*[conc(v) for v in a], **{kk: conc(v) for kk, v in k.items()}))
            return g
        return f

    def norm(self, x, ord=None, axis=None, **kw):
        x = np.asarray(x)
        if ord is not None:
            return _post(_np.linalg.norm(conc(x), ord=ord, axis=axis, **kw))
        if x.dtype != object:
            return _post(_np.linalg.norm(x, axis=axis, **kw))
        if axis is not None and x.ndim > 1:
            xm = _np.moveaxis(x, axis, 0)
            out = _np.empty(xm.shape[1:], dtype=object)
            for idx in _np.ndindex(*xm.shape[1:]):
                out[idx] = self.norm(xm[(slice(None),) + idx])
            return out
        v = [_f(t) for t in x.ravel()]
        if len(v) == 0:
            return 0.0
        if len(v) == 1:
            return abs(v[0])
        if not any(isinstance(t, SymFloat) for t in v):
            return float(_np.linalg.norm(_np.array(v, dtype=float)))
        # sum of squares over the symbolic and nonzero entries only
        acc = None
        for t in v:
            if not isinstance(t, SymFloat) and t == 0.0:
                continue
            sq = t * t
            acc = sq if acc is None else acc + sq
        if acc is None:
            return 0.0
        nz = [t for t in v if isinstance(t, SymFloat) or t != 0.0]
        if len(nz) == 1:
            return abs(nz[0])
        if core.OPAQUE_NORM[0] and isinstance(acc, SymFloat):
            return _opaque_norm(nz)
        return acc.sqrt() if isinstance(acc, SymFloat) else math.sqrt(acc)


def _opaque_norm(vals):
    """Euclidean norm as a fresh real bounded by the max- and 1-norms (sound
    over-approximation that keeps the path condition linear)."""
    vals = [lift(t) for t in vals]
    if any(t.k == NAN for t in vals):
        return math.nan
    if any(t.k != FIN for t in vals):
        return math.inf
    e = core.engine()
    if e.mode != "sym":
        return math.sqrt(sum(float(t) ** 2 for t in vals))
    ab = [abs(t) for t in vals]
    t = e.fresh_real("norm")
    tot = ab[0]
    for a in ab[1:]:
        tot = tot + a
    e.assume(z3.And(t <= tot.r, *[t >= a.r for a in ab]))
    return SymFloat(FIN, t)


_Proxy.linalg = _Linalg()
np = _Proxy()


# ---------------------------------------------------------------------------
# builtins replacements injected in the analysed modules' namespaces
# ---------------------------------------------------------------------------

class _SFMeta(type):
    def __instancecheck__(cls, x):
        return isinstance(x, (float, SymFloat))


class s_float(float, metaclass=_SFMeta):
    """``float`` inside the analysed modules: passes symbolic scalars through."""

    def __new__(cls, x=0.0):
        if isinstance(x, SymFloat):
            return x
        if isinstance(x, _np.ndarray) and x.dtype == object:
            if x.size != 1:
                raise TypeError("only length-1 arrays can be converted to Python scalars")
            v = x.reshape(-1)[0]
            if isinstance(v, SymFloat):
                return v
            return float(v)
        return float(x)


_Proxy.float64 = s_float


def _minmax(args, kw, pyf, better):
    if len(args) == 1:
        seq = list(args[0])
        if kw or not any(isinstance(a, SymFloat) for a in seq):
            return pyf(seq, **kw)
    else:
        seq = list(args)
        if kw or not any(isinstance(a, SymFloat) for a in seq):
            return pyf(*seq, **kw)
    r = seq[0]            # python semantics: keep r unless the candidate is strictly better
    for a in seq[1:]:
        r = ite(better(lift(a), r), a, r)
    return r


def s_max(*args, **kw):
    return _minmax(args, kw, max, lambda a, r: a > r)


def s_min(*args, **kw):
    return _minmax(args, kw, min, lambda a, r: a < r)


def s_abs(x):
    return abs(x)


class _SIMeta(type):
    def __instancecheck__(cls, x):
        return isinstance(x, int)


class s_int(int, metaclass=_SIMeta):
    """``int`` inside the analysed modules: concrete-valued SymFloat allowed."""

    def __new__(cls, x=0, *a):
        if isinstance(x, SymFloat):
            if x.concrete() is None and x.k == FIN:
                # truncation of a symbolic value: fork over the (small) integer it can be
                if bool(x < 0.0):
                    raise core.EngineError("int() of a negative symbolic value is not modelled")
                for k in range(0, 65):
                    if bool(x < float(k + 1)):
                        return k
                raise core.EngineError("int() of a symbolic value above 64 is not modelled")
            return int(x)
        if isinstance(x, _np.ndarray) and x.dtype == object and x.size == 1:
            return int(_f(x.reshape(-1)[0]))
        return int(x, *a)


def s_bool(x=False):
    return bool(x)
