"""SX core: symbolic floats over z3 reals with concrete IEEE kind tags, and a
fork-by-replay path explorer.

Value domain (DESIGN.md 2.3):  SymFloat = (kind, r) with a *concrete* kind tag
in {FIN, PINF, NINF, NAN} and, for FIN, a z3 Real term r.  Arithmetic on finite
operands is exact real arithmetic; special values follow IEEE-754; comparisons
follow IEEE-754 exactly (anything with NaN is False, != is True).

Control flow: ``bool(SymBool)`` asks the current engine to branch.  Paths are
re-executed from their decision prefix (stateless replay).
"""
import math
import time
from fractions import Fraction

import numpy as _np
import z3

FIN, PINF, NINF, NAN = 0, 1, -1, 2
KIND_NAMES = {FIN: "fin", PINF: "+inf", NINF: "-inf", NAN: "nan"}
ALL_KINDS = (FIN, NAN, PINF, NINF)


class PathAbort(BaseException):
    """The current path is infeasible / cut by an assumption (not an error)."""


class EngineError(Exception):
    """The encoding cannot represent what the code asked for (harness error)."""


class ReplayDiverged(Exception):
    """A native replay left the recorded path."""


def _rat(x):
    fr = Fraction(x)
    return z3.RatVal(fr.numerator, fr.denominator)


# ---------------------------------------------------------------------------
# Engines
# ---------------------------------------------------------------------------

ENGINE = None


def set_engine(e):
    global ENGINE
    ENGINE = e


def engine():
    return ENGINE


class Engine:
    """Symbolic engine.  One instance explores one harness function."""

    mode = "sym"

    def __init__(self, timeout_ms=5000, nlsat=False, assert_timeout_ms=None):
        self.timeout_ms = timeout_ms
        self.assert_timeout_ms = assert_timeout_ms or timeout_ms
        self.nlsat = nlsat
        self.solver = z3.Solver()
        self.solver.set("timeout", timeout_ms)
        self.prefix = []
        self.trace = []
        self.pc = []
        self.worklist = []
        self.choices = []       # decisions taken through choose() on this path
        self.fresh_log = []     # (name, kind, z3 var or None) in creation order
        self.model = None       # model known to satisfy pc (or None)
        self.fresh_id = 0
        self.n_queries = 0
        self.n_sat = self.n_unsat = self.n_unknown = 0
        self.solver_time = 0.0
        self.n_branches = 0
        self.n_paths = 0
        self.n_aborted = 0
        self.timed_out_branches = 0
        self.max_depth = 0
        self.judging = False

    # -- values -----------------------------------------------------------
    def fresh_real(self, name):
        self.fresh_id += 1
        return z3.Real(f"{name}!{self.fresh_id}")

    def fresh(self, name, kinds=(FIN,)):
        """Any double of one of `kinds` (forks over the kinds, no solver)."""
        k = kinds[self.choose(len(kinds))]
        if k == FIN:
            r = self.fresh_real(name)
            self.fresh_log.append((name, FIN, r))
            return SymFloat(FIN, r)
        self.fresh_log.append((name, k, None))
        return SymFloat(k, None)

    def fresh_in(self, name, lo=None, hi=None, kinds=(FIN,)):
        v = self.fresh(name, kinds)
        if v.k == FIN:
            if lo is not None:
                self.assume(v >= lo)
            if hi is not None:
                self.assume(v <= hi)
        return v

    def const(self, x):
        return lift(x)

    def uf(self, name, args):
        """value of an uninterpreted real function `name` at the (finite) point args"""
        args = [lift(a) for a in args]
        if any(a.k != FIN for a in args):
            raise EngineError("uninterpreted function applied to a non-finite point")
        f = z3.Function(name, *([z3.RealSort()] * (len(args) + 1)))
        return SymFloat(FIN, f(*[a.r for a in args]))

    # -- nondeterminism ----------------------------------------------------
    def choose(self, n, label=None):
        if n <= 1:
            return 0
        pos = len(self.trace)
        if pos < len(self.prefix):
            d = self.prefix[pos]
        else:
            for alt in range(n - 1, 0, -1):
                self.worklist.append(list(self.trace) + [alt])
            d = 0
        self.trace.append(d)
        self.choices.append(d)
        return d

    # -- solver -----------------------------------------------------------
    def _mk_solver(self, timeout):
        if self.nlsat:
            sv = z3.Tactic("qfnra-nlsat").solver()
            sv.set("timeout", timeout)
            sv.add(*self.pc)
            return sv
        return None

    def check(self, *extra, timeout=None):
        """Satisfiability of pc /\\ extra.  Returns 'sat'|'unsat'|'unknown'.
        After 'sat', self.last_model holds a model."""
        t = time.time()
        extra = [x.e if isinstance(x, SymBool) else x for x in extra]
        extra = [z3.BoolVal(bool(x)) if not isinstance(x, z3.ExprRef) else x for x in extra]
        if self.nlsat:
            sv = self._mk_solver(timeout or self.timeout_ms)
            sv.add(*extra)
            r = sv.check()
        else:
            sv = self.solver
            if timeout:
                sv.set("timeout", timeout)
            r = sv.check(*extra)
            if timeout:
                sv.set("timeout", self.timeout_ms)
        self.solver_time += time.time() - t
        self.n_queries += 1
        rs = str(r)
        if rs == "sat":
            self.n_sat += 1
            try:
                self.last_model = sv.model()
            except z3.Z3Exception:
                rs = "unknown"
        if rs == "unsat":
            self.n_unsat += 1
        elif rs == "unknown":
            self.n_unknown += 1
        return rs

    def _model_says(self, cond):
        if self.model is None:
            return None
        try:
            v = self.model.eval(cond, model_completion=True)
        except z3.Z3Exception:
            return None
        if z3.is_true(v):
            return True
        if z3.is_false(v):
            return False
        return None

    def branch(self, cond):
        raw = cond
        cond = z3.simplify(cond)
        if z3.is_true(cond):
            return True
        if z3.is_false(cond):
            return False
        if not SIMPLIFY[0]:
            cond = raw
        if self.judging:
            raise EngineError("an oracle tried to fork on a symbolic condition: " + str(cond)[:200])
        self.n_branches += 1
        pos = len(self.trace)
        if pos < len(self.prefix):
            d = self.prefix[pos]
            self.model = None
        else:
            known = self._model_says(cond)
            if known is None:
                rt = self.check(cond)
                if rt == "sat":
                    self.model = self.last_model
                    known = True
                elif rt == "unsat":
                    # pc is satisfiable by construction, so the other side is
                    rf = self.check(z3.Not(cond))
                    if rf == "unsat":
                        raise PathAbort("infeasible")
                    if rf == "sat":
                        self.model = self.last_model
                    else:
                        self.timed_out_branches += 1
                        self.model = None
                    known = False
                    self.trace.append(False)
                    c = z3.Not(cond)
                    self.pc.append(c)
                    self.solver.add(c)
                    return False
                else:
                    # undecided: keep both sides (sound for proofs)
                    self.timed_out_branches += 1
                    self.worklist.append(list(self.trace) + [False])
                    self.trace.append(True)
                    self.pc.append(cond)
                    self.solver.add(cond)
                    self.model = None
                    return True
            other = z3.Not(cond) if known else cond
            ro = self.check(other)
            if ro != "unsat":
                if ro == "unknown":
                    self.timed_out_branches += 1
                self.worklist.append(list(self.trace) + [not known])
            d = known
        self.trace.append(d)
        c = cond if d else z3.Not(cond)
        self.pc.append(c)
        self.solver.add(c)
        return d

    def assume(self, cond):
        if isinstance(cond, SymBool):
            cond = cond.e
        if not isinstance(cond, z3.ExprRef):
            if cond:
                return
            raise PathAbort("assume false")
        raw = cond
        cond = z3.simplify(cond)
        if z3.is_true(cond):
            return
        if z3.is_false(cond):
            raise PathAbort("assume false")
        if not SIMPLIFY[0]:
            cond = raw
        self.pc.append(cond)
        self.solver.add(cond)
        if self._model_says(cond) is not True:
            self.model = None

    def feasible(self):
        """Is the current path condition satisfiable (used after assumes)."""
        if self.model is not None:
            return True
        r = self.check()
        if r == "sat":
            self.model = self.last_model
        return r != "unsat"

    # -- exploration ------------------------------------------------------
    def _reset_path(self, prefix):
        self.prefix = prefix
        self.trace = []
        self.pc = []
        self.choices = []
        self.fresh_log = []
        self.solver.reset()
        self.solver.set("timeout", self.timeout_ms)
        self.fresh_id = 0
        self.model = None

    def explore(self, fn, on_path=None, prefixes=None, max_paths=None, deadline=None):
        """Depth-first exploration.  Returns (completed paths, leftover prefixes)."""
        self.worklist = [list(p) for p in (prefixes if prefixes is not None else [[]])]
        n = 0
        while self.worklist:
            if max_paths is not None and n >= max_paths:
                break
            if deadline is not None and time.time() > deadline:
                break
            self._reset_path(self.worklist.pop())
            try:
                r = fn(self)
                # a path whose assumptions are unsatisfiable is no path
                if not self.feasible():
                    raise PathAbort("infeasible at end")
            except PathAbort:
                self.n_aborted += 1
                continue
            n += 1
            self.n_paths += 1
            self.max_depth = max(self.max_depth, len(self.trace))
            if on_path is not None:
                on_path(self, r)
        left = self.worklist
        self.worklist = []
        return n, left

    # -- models -----------------------------------------------------------
    def model_values(self, model=None):
        """Concrete doubles for this path's fresh values, in creation order."""
        model = model or self.last_model
        out = []
        for name, kind, var in self.fresh_log:
            if kind == FIN:
                out.append(_model_float(model, var))
            else:
                out.append({PINF: math.inf, NINF: -math.inf, NAN: math.nan}[kind])
        return out

    def nice_model(self, *extra, grids=(1, 8, 64, 1024, 2 ** 20), timeout=None):
        """A model of pc /\\ extra whose reals are, as far as possible, small
        dyadic rationals (exactly representable doubles), so that a native
        replay follows the same path.  Returns list of floats (creation order)
        or None."""
        extra = [x.e if isinstance(x, SymBool) else x for x in extra]
        if self.check(*extra, timeout=timeout) != "sat":
            return None
        model = self.last_model
        fixed = []
        vars_ = [v for (_, k, v) in self.fresh_log if k == FIN]
        for var in vars_:
            val = model.eval(var, model_completion=True)
            fr = _as_fraction(val)
            if fr is None:
                continue
            done = False
            for g in grids:
                cand = Fraction(round(fr * g), g)
                c = var == z3.RatVal(cand.numerator, cand.denominator)
                if self.check(*extra, *fixed, c, timeout=timeout) == "sat":
                    fixed.append(c)
                    model = self.last_model
                    done = True
                    break
            if not done:
                # keep whatever the model says, but pin it to a nearby double if possible
                try:
                    f = float(fr)
                except OverflowError:
                    f = math.inf
                if math.isfinite(f):
                    cands = [f]
                    up = dn = f
                    for _ in range(3):
                        up = math.nextafter(up, math.inf)
                        dn = math.nextafter(dn, -math.inf)
                        cands += [up, dn]
                    for cf in cands:
                        c = var == _rat(cf)
                        if self.check(*extra, *fixed, c, timeout=timeout) == "sat":
                            fixed.append(c)
                            model = self.last_model
                            break
        self.last_model = model
        return self.model_values(model)

    def stats(self):
        return dict(paths=self.n_paths, aborted=self.n_aborted, branches=self.n_branches,
                    queries=self.n_queries, sat=self.n_sat, unsat=self.n_unsat,
                    unknown=self.n_unknown, solver_s=round(self.solver_time, 3),
                    timed_out_branches=self.timed_out_branches, max_depth=self.max_depth)


def _as_fraction(val):
    try:
        if z3.is_rational_value(val):
            return Fraction(val.numerator_as_long(), val.denominator_as_long())
        if z3.is_algebraic_value(val):
            ap = val.approx(40)
            return Fraction(ap.numerator_as_long(), ap.denominator_as_long())
    except Exception:
        return None
    return None


def _model_float(model, var):
    val = model.eval(var, model_completion=True)
    fr = _as_fraction(val)
    if fr is None:
        return 0.0
    try:
        return float(fr)
    except OverflowError:
        return math.inf if fr > 0 else -math.inf


class NativeEngine:
    """Replays a recorded path on plain Python floats (real numpy, real scipy).
    fresh() hands out the recorded values, choose() the recorded choices."""

    mode = "native"

    def __init__(self, choices, values):
        self._choices = list(choices)
        self._values = list(values)
        self.ci = 0
        self.vi = 0

    def choose(self, n, label=None):
        if n <= 1:
            return 0
        if self.ci >= len(self._choices):
            raise ReplayDiverged("ran out of recorded choices")
        d = self._choices[self.ci]
        self.ci += 1
        if d >= n:
            raise ReplayDiverged("recorded choice out of range")
        return d

    def fresh(self, name, kinds=(FIN,)):
        self.choose(len(kinds))
        if self.vi >= len(self._values):
            raise ReplayDiverged("ran out of recorded values")
        v = self._values[self.vi]
        self.vi += 1
        return float(v)

    def fresh_in(self, name, lo=None, hi=None, kinds=(FIN,)):
        v = self.fresh(name, kinds)
        if math.isfinite(v):
            if lo is not None and not v >= lo:
                raise ReplayDiverged("value below assumed range")
            if hi is not None and not v <= hi:
                raise ReplayDiverged("value above assumed range")
        return v

    def const(self, x):
        return float(x)

    def uf(self, name, args):
        """native stand-in for an uninterpreted function: a fixed smooth function of the point, keyed on the name"""
        h = sum((i + 1) * ord(c) for i, c in enumerate(name)) % 97
        v = 0.1 * h
        for i, a in enumerate(args):
            a = float(a)
            v += (0.37 + 0.11 * ((h + 3 * i) % 7)) * a + (0.05 + 0.01 * ((h + i) % 5)) * a * a
            v += 0.21 * math.sin((1 + (h + i) % 3) * a)
        return v

    def assume(self, cond):
        if isinstance(cond, SymBool):
            cond = z3.is_true(z3.simplify(cond.e))
        if not cond:
            raise ReplayDiverged("assumption false on native replay")

    def branch(self, cond):
        v = z3.simplify(cond)
        if z3.is_true(v):
            return True
        if z3.is_false(v):
            return False
        raise ReplayDiverged("symbolic condition on native replay")


# ---------------------------------------------------------------------------
# SymBool / SymFloat
# ---------------------------------------------------------------------------

class SymBool:
    __slots__ = ("e",)

    def __init__(self, e):
        self.e = e

    def __bool__(self):
        return ENGINE.branch(self.e)

    def __and__(self, o):
        return b_and(self, o)

    __rand__ = __and__

    def __or__(self, o):
        return b_or(self, o)

    __ror__ = __or__

    def __invert__(self):
        return SymBool(z3.Not(self.e))

    def __repr__(self):
        return f"SymBool({self.e})"


def _b(x):
    """z3 Bool of a SymBool / bool."""
    if isinstance(x, SymBool):
        return x.e
    if isinstance(x, z3.ExprRef):
        return x
    return z3.BoolVal(bool(x))


def b_and(*xs):
    if all(not isinstance(x, (SymBool, z3.ExprRef)) for x in xs):
        return all(bool(x) for x in xs)
    if any((not isinstance(x, (SymBool, z3.ExprRef))) and not x for x in xs):
        return False
    ys = [_b(x) for x in xs if isinstance(x, (SymBool, z3.ExprRef))]
    return SymBool(z3.And(*ys)) if len(ys) > 1 else SymBool(ys[0])


def b_or(*xs):
    if all(not isinstance(x, (SymBool, z3.ExprRef)) for x in xs):
        return any(bool(x) for x in xs)
    if any((not isinstance(x, (SymBool, z3.ExprRef))) and x for x in xs):
        return True
    ys = [_b(x) for x in xs if isinstance(x, (SymBool, z3.ExprRef))]
    return SymBool(z3.Or(*ys)) if len(ys) > 1 else SymBool(ys[0])


def b_not(x):
    if isinstance(x, SymBool):
        return SymBool(z3.Not(x.e))
    if isinstance(x, z3.ExprRef):
        return SymBool(z3.Not(x))
    return not x


def b_implies(a, b):
    return b_or(b_not(a), b)


def lift(x):
    if isinstance(x, SymFloat):
        return x
    if isinstance(x, _np.ndarray):
        if x.ndim == 0 or x.size == 1:
            return lift(x.reshape(-1)[0])
        raise TypeError("cannot lift a non-scalar array")
    if isinstance(x, (bool, _np.bool_)):
        x = float(x)
    if isinstance(x, (int, float, _np.floating, _np.integer)):
        if isinstance(x, int) and not isinstance(x, bool):
            return SymFloat(FIN, z3.RatVal(x, 1))
        x = float(x)
        if math.isnan(x):
            return SymFloat(NAN, None)
        if math.isinf(x):
            return SymFloat(PINF if x > 0 else NINF, None)
        return SymFloat(FIN, _rat(x))
    if isinstance(x, Fraction):
        return SymFloat(FIN, z3.RatVal(x.numerator, x.denominator))
    raise TypeError(f"cannot lift {type(x)}")


def _sign(r):
    """Concrete sign (1, -1, 0) of a finite real term, forking if needed."""
    if ENGINE.branch(r > 0):
        return 1
    if ENGINE.branch(r < 0):
        return -1
    return 0


_NANV = None


class SymFloat:
    __slots__ = ("k", "r")

    def __init__(self, k, r):
        self.k, self.r = k, r

    def __repr__(self):
        if self.k != FIN:
            return KIND_NAMES[self.k]
        return f"S({self.r})"

    # -- concrete access ---------------------------------------------------
    def concrete(self):
        """Python float if this value is a numeral (or special), else None."""
        if self.k == PINF:
            return math.inf
        if self.k == NINF:
            return -math.inf
        if self.k == NAN:
            return math.nan
        fr = _as_fraction(z3.simplify(self.r))
        if fr is None or not z3.is_rational_value(z3.simplify(self.r)):
            return None
        try:
            return float(fr)
        except OverflowError:
            return None

    def __float__(self):
        c = self.concrete()
        if c is None:
            raise EngineError("symbolic value realised through float()")
        return c

    def __int__(self):
        c = self.concrete()
        if c is None:
            raise EngineError("symbolic value realised through int()")
        return int(c)

    def __index__(self):
        raise EngineError("symbolic value used as an index")

    def __bool__(self):
        r = self != 0.0
        return bool(r)

    # -- arithmetic ----------------------------------------------------------
    def __add__(s, o):
        if isinstance(o, _np.ndarray):
            return NotImplemented
        o = lift(o)
        if s.k == NAN or o.k == NAN:
            return SymFloat(NAN, None)
        if s.k != FIN and o.k != FIN:
            return SymFloat(s.k if s.k == o.k else NAN, None)
        if s.k != FIN:
            return SymFloat(s.k, None)
        if o.k != FIN:
            return SymFloat(o.k, None)
        return SymFloat(FIN, _s(s.r + o.r))

    __radd__ = __add__

    def __neg__(s):
        if s.k == FIN:
            return SymFloat(FIN, _s(-s.r))
        return SymFloat({PINF: NINF, NINF: PINF, NAN: NAN}[s.k], None)

    def __pos__(s):
        return s

    def __sub__(s, o):
        if isinstance(o, _np.ndarray):
            return NotImplemented
        o = lift(o)
        if not SIMPLIFY[0] and s.k == FIN and o.k == FIN:
            return SymFloat(FIN, s.r - o.r)
        return s + (-o)

    def __rsub__(s, o):
        if isinstance(o, _np.ndarray):
            return NotImplemented
        o = lift(o)
        if not SIMPLIFY[0] and s.k == FIN and o.k == FIN:
            return SymFloat(FIN, o.r - s.r)
        return o + (-s)

    def __mul__(s, o):
        if isinstance(o, _np.ndarray):
            return NotImplemented
        o = lift(o)
        if s.k == NAN or o.k == NAN:
            return SymFloat(NAN, None)
        if s.k == FIN and o.k == FIN:
            return SymFloat(FIN, _s(s.r * o.r))
        sa = s.k if s.k != FIN else _sign(s.r)
        sb = o.k if o.k != FIN else _sign(o.r)
        if sa == 0 or sb == 0:
            return SymFloat(NAN, None)
        return SymFloat(PINF if sa * sb > 0 else NINF, None)

    __rmul__ = __mul__

    def __truediv__(s, o):
        if isinstance(o, _np.ndarray):
            return NotImplemented
        o = lift(o)
        if s.k == NAN or o.k == NAN:
            return SymFloat(NAN, None)
        if s.k != FIN and o.k != FIN:
            return SymFloat(NAN, None)
        if o.k != FIN:
            return SymFloat(FIN, z3.RealVal(0))   # finite/inf = 0 (sign of zero not modelled)
        # divisor finite: is it zero?
        z = z3.simplify(o.r == 0)
        if z3.is_false(z):
            sb = None
        elif z3.is_true(z):
            sb = 0
        else:
            sb = 0 if ENGINE.branch(z) else None
        if sb == 0:
            if s.k != FIN:
                return SymFloat(s.k, None)        # inf/0 = inf (+0 assumed)
            sa = _sign(s.r)
            if sa == 0:
                return SymFloat(NAN, None)
            return SymFloat(PINF if sa > 0 else NINF, None)   # x/0, +0 assumed
        if s.k != FIN:
            so = _sign(o.r)
            return SymFloat(PINF if s.k * so > 0 else NINF, None)
        return SymFloat(FIN, _s(s.r / o.r))

    def __rtruediv__(s, o):
        if isinstance(o, _np.ndarray):
            return NotImplemented
        return lift(o) / s

    def __abs__(s):
        if s.k == FIN:
            craw = s.r >= 0
            c = z3.simplify(craw)
            if z3.is_true(c):
                return s
            if z3.is_false(c):
                return -s
            if not SIMPLIFY[0]:
                c = craw
            if MERGE[0]:
                return SymFloat(FIN, z3.If(c, s.r, -s.r))
            return s if ENGINE.branch(c) else -s
        return SymFloat(PINF if s.k != NAN else NAN, None)

    def __pow__(s, o):
        if isinstance(o, SymFloat):
            o = o.concrete()
            if o is None:
                raise EngineError("symbolic exponent")
        if o == 2:
            return s * s
        if o == 3:
            return s * s * s
        if o == 1:
            return s
        if o == 0.5:
            return s.sqrt()
        if o == 0:
            return lift(1.0)
        if float(o).is_integer() and 0 < o <= 8:
            r = s
            for _ in range(int(o) - 1):
                r = r * s
            return r
        raise EngineError(f"pow {o} not supported")

    def __rpow__(s, o):
        c = s.concrete()
        if c is None:
            raise EngineError("symbolic exponent")
        return lift(float(o) ** c)

    def sqrt(s):
        if s.k == NAN or s.k == NINF:
            return SymFloat(NAN, None)
        if s.k == PINF:
            return s
        c = s.concrete()
        if c is not None and c >= 0:
            q = math.sqrt(c)
            if Fraction(q) * Fraction(q) == Fraction(c):
                return lift(q)
        if ENGINE.branch(s.r < 0):
            return SymFloat(NAN, None)
        t = ENGINE.fresh_real("sqrt")
        ENGINE.assume(z3.And(t >= 0, t * t == s.r))
        return SymFloat(FIN, t)

    # -- comparisons (IEEE: anything with NaN is False, != is True) --------
    def _cmp(s, o, op):
        if isinstance(o, _np.ndarray):
            return NotImplemented
        try:
            o = lift(o)
        except TypeError:
            return NotImplemented
        if s.k == NAN or o.k == NAN:
            return op == "ne"
        if s.k == FIN and o.k == FIN:
            a, b = s.r, o.r
            if LIN_DIV[0] and (z3.is_div(a) or z3.is_div(b)):
                if ENGINE is not None and getattr(ENGINE, "judging", False):
                    ej = _clear_div_expr(a, b, op)
                    if ej is not None:
                        ej = z3.simplify(ej)
                        if z3.is_true(ej):
                            return True
                        if z3.is_false(ej):
                            return False
                        return SymBool(ej)
                else:
                    a, b, op = _clear_div(a, b, op)
            if op == "lt":
                e = a < b
            elif op == "le":
                e = a <= b
            elif op == "gt":
                e = a > b
            elif op == "ge":
                e = a >= b
            elif op == "eq":
                e = a == b
            else:
                e = a != b
            raw = e
            e = z3.simplify(e)
            if z3.is_true(e):
                return True
            if z3.is_false(e):
                return False
            return SymBool(e if SIMPLIFY[0] else raw)
        ka = {NINF: -1, FIN: 0, PINF: 1}[s.k]
        kb = {NINF: -1, FIN: 0, PINF: 1}[o.k]
        return {"lt": ka < kb, "le": ka <= kb, "gt": ka > kb, "ge": ka >= kb,
                "eq": ka == kb, "ne": ka != kb}[op]

    def __lt__(s, o):
        return s._cmp(o, "lt")

    def __le__(s, o):
        return s._cmp(o, "le")

    def __gt__(s, o):
        return s._cmp(o, "gt")

    def __ge__(s, o):
        return s._cmp(o, "ge")

    def __eq__(s, o):
        return s._cmp(o, "eq")

    def __ne__(s, o):
        return s._cmp(o, "ne")

    __hash__ = object.__hash__

    def isnan(s):
        return s.k == NAN

    def isinf(s):
        return s.k in (PINF, NINF)

    def isfinite(s):
        return s.k == FIN

    # numpy calls these methods on object arrays for some ufuncs
    def conjugate(s):
        return s


SIMPLIFY = [True]  # False: keep every arithmetic term exactly as the code built it (needed by sx/fp.py)


def _s(e):
    return z3.simplify(e) if SIMPLIFY[0] else e


MERGE = [True]     # merge min/max/abs/clip of finite operands into ite terms
LIN_DIV = [True]   # compare quotients by cross-multiplication (keeps queries linear when one side is constant)
OPAQUE_NORM = [False]  # norm of >= 2 symbolic entries: fresh real t with max|c_i| <= t <= sum|c_i| (over-approximation)

_FLIP = {"lt": "gt", "le": "ge", "gt": "lt", "ge": "le", "eq": "eq", "ne": "ne"}


def _rel(a, b, op):
    return {"lt": a < b, "le": a <= b, "gt": a > b, "ge": a >= b, "eq": a == b, "ne": a != b}[op]


def _clear_div_expr(a, b, op):
    """non-forking variant for oracles: (d > 0 and n op b d) or (d < 0 and n op' b d)"""
    if z3.is_div(a) and not z3.is_rational_value(a.arg(1)):
        n, d = a.arg(0), a.arg(1)
        return z3.Or(z3.And(d > 0, _rel(n, b * d, op)), z3.And(d < 0, _rel(n, b * d, _FLIP[op])))
    if z3.is_div(b) and not z3.is_rational_value(b.arg(1)):
        n, d = b.arg(0), b.arg(1)
        return z3.Or(z3.And(d > 0, _rel(a * d, n, op)), z3.And(d < 0, _rel(a * d, n, _FLIP[op])))
    return None


def _clear_div(a, b, op):
    """a op b with a = n/d: returns (n, b*d, op') with the sign of d decided on
    the current path (forking if the path condition leaves it open)."""
    for _ in range(4):
        if z3.is_div(a) and not z3.is_rational_value(a.arg(1)):
            n, d = a.arg(0), a.arg(1)
            sd = _sign(d)
            if sd == 0:
                raise PathAbort("zero denominator: infeasible (the quotient was built under d != 0)")
            a, b = n, z3.simplify(b * d)
            if sd < 0:
                op = _FLIP[op]
        elif z3.is_div(b) and not z3.is_rational_value(b.arg(1)):
            n, d = b.arg(0), b.arg(1)
            sd = _sign(d)
            if sd == 0:
                raise PathAbort("zero denominator: infeasible (the quotient was built under d != 0)")
            a, b = z3.simplify(a * d), n
            if sd < 0:
                op = _FLIP[op]
        else:
            break
    return a, b, op


def ite(c, a, b):
    """`a if c else b` without forking when both are finite."""
    if not isinstance(c, SymBool):
        return a if c else b
    la, lb = lift(a), lift(b)
    if MERGE[0] and la.k == FIN and lb.k == FIN:
        return SymFloat(FIN, z3.If(c.e, la.r, lb.r))
    return a if bool(c) else b


def is_sym(x):
    return isinstance(x, (SymFloat, SymBool))
