"""Translator validation, part 1: every numpy-proxy override against numpy itself,
on random and special values, both on object arrays of Python floats and on
object arrays of SymFloat constants (which exercises the symbolic code paths:
all comparisons simplify, no solver needed)."""
import math
import random

import numpy as _np

from . import core, symnp
from .core import SymFloat, lift

SPECIAL = [0.0, -0.0, 1.0, -1.0, 0.5, 2.0, 4.0, 9.0, 0.25, math.inf, -math.inf, math.nan, 1e-8, -3.0, 16.0]


def _conc(x):
    if isinstance(x, SymFloat):
        return x.concrete()
    if isinstance(x, _np.ndarray):
        if x.dtype == object:
            return _np.array([_conc(v) for v in x.ravel()], dtype=float).reshape(x.shape)
        return x
    if isinstance(x, (list, tuple)):
        return [_conc(v) for v in x]
    return x


def _eq(a, b):
    a = _np.asarray(_conc(a), dtype=float)
    b = _np.asarray(b, dtype=float)
    if a.shape != b.shape:
        return False
    return bool(_np.all((a == b) | (_np.isnan(a) & _np.isnan(b)) | (_np.abs(a - b) <= 1e-12 * _np.maximum(1.0, _np.abs(b)))))


def _sym(a):
    out = _np.empty(a.shape, dtype=object)
    for idx in _np.ndindex(*a.shape):
        out[idx] = lift(float(a[idx]))
    return out


def run(seed=0):
    rng = random.Random(seed)
    P = symnp.np
    failures = []
    cases = 0
    old_engine = core.engine()
    core.set_engine(core.Engine())

    def check(name, got, want):
        nonlocal cases
        cases += 1
        try:
            ok = _eq(got, want)
        except Exception as ex:      # noqa
            ok = False
        if not ok and len(failures) < 10:
            failures.append((name, str(_conc(got))[:80], str(want)[:80]))

    def vec(n, special_p=0.4, nonan=False, nonneg=False, squares=False):
        out = []
        for _ in range(n):
            if rng.random() < special_p:
                v = rng.choice(SPECIAL)
            else:
                v = rng.choice([rng.randint(-8, 8) / 4.0, rng.randint(-100, 100) / 16.0])
            if nonan and v != v:
                v = 1.0
            if nonneg:
                v = abs(v)
            if squares:
                v = float(int(abs(v)) ** 2) if math.isfinite(v) else v
            out.append(v)
        return _np.array(out, dtype=float)

    with _np.errstate(all="ignore"):
        for it in range(60):
            n = rng.randint(1, 4)
            a, b, c = vec(n), vec(n), vec(n)
            for flav, conv in (("obj", lambda x: x.astype(object)), ("sym", _sym)):
                A, B, C = conv(a), conv(b), conv(c)
                check(f"maximum/{flav}", P.maximum(A, B), _np.maximum(a, b))
                check(f"minimum/{flav}", P.minimum(A, B), _np.minimum(a, b))
                check(f"maximum-scalar/{flav}", P.maximum(A, 0.0), _np.maximum(a, 0.0))
                lo, hi = _np.minimum(b, c), _np.maximum(b, c)
                if not (_np.isnan(lo).any() or _np.isnan(hi).any()):
                    check(f"clip/{flav}", P.clip(A, conv(lo), conv(hi)), _np.clip(a, lo, hi))
                check(f"max/{flav}", P.max(A), _np.max(a))
                check(f"min/{flav}", P.min(A), _np.min(a))
                check(f"max-initial/{flav}", P.max(A, initial=0.0), _np.max(a, initial=0.0))
                check(f"min-initial/{flav}", P.min(A, initial=math.inf), _np.min(a, initial=math.inf))
                if not _np.isnan(a).all():
                    check(f"nanmin/{flav}", P.nanmin(A), _np.nanmin(a))
                    check(f"nanmax/{flav}", P.nanmax(A), _np.nanmax(a))
                check(f"argmax/{flav}", P.argmax(A), _np.argmax(a))
                check(f"argmin/{flav}", P.argmin(A), _np.argmin(a))
                check(f"abs/{flav}", P.abs(A), _np.abs(a))
                check(f"isnan/{flav}", P.isnan(A), _np.isnan(a))
                check(f"isfinite/{flav}", P.isfinite(A), _np.isfinite(a))
                check(f"isinf/{flav}", P.isinf(A), _np.isinf(a))
                check(f"sign/{flav}", P.sign(A), _np.sign(a))
                check(f"isneginf/{flav}", P.isneginf(A), _np.isneginf(a))
                check(f"isposinf/{flav}", P.isposinf(A), _np.isposinf(a))
                check(f"nan_to_num/{flav}", P.nan_to_num(A, nan=7.0, posinf=9.0, neginf=-9.0),
                      _np.nan_to_num(a, nan=7.0, posinf=9.0, neginf=-9.0))
                check(f"isclose/{flav}", P.isclose(A, B), _np.isclose(a, b))
                check(f"allclose/{flav}", P.allclose(A, conv(a + 1e-12)), _np.allclose(a, a + 1e-12))
                check(f"array_equal/{flav}", P.array_equal(A, B), _np.array_equal(a, b))
                check(f"array_equal-self/{flav}", P.array_equal(A, conv(a.copy())), _np.array_equal(a, a.copy()))
                check(f"count_nonzero/{flav}", P.count_nonzero(A), _np.count_nonzero(a))
                check(f"lt/{flav}", A < B, a < b)
                check(f"le/{flav}", A <= B, a <= b)
                check(f"eq/{flav}", A == B, a == b)
                check(f"ne/{flav}", A != B, a != b)
                check(f"add/{flav}", A + B, a + b)
                check(f"sub/{flav}", A - B, a - b)
                check(f"mul/{flav}", A * B, a * b)
                af, bf = vec(n, 0.2, nonan=True), vec(n, 0.2, nonan=True)
                check(f"div/{flav}", conv(af) / conv(_np.where(bf == 0, 1.0, bf)), af / _np.where(bf == 0, 1.0, bf))
                check(f"dot/{flav}", conv(af) @ conv(bf), af @ bf)
                sq = vec(n, 0.2, nonan=True, squares=True)
                check(f"sqrt/{flav}", P.sqrt(conv(sq)), _np.sqrt(sq))
                fin = _np.where(_np.isfinite(af), af, 1.0)
                v34 = _np.array([3.0, 4.0]) * rng.choice([1.0, 0.5, -2.0])
                check(f"norm/{flav}", P.linalg.norm(conv(v34)), _np.linalg.norm(v34))
                check(f"norm1/{flav}", P.linalg.norm(conv(fin[:1])), _np.linalg.norm(fin[:1]))
                check(f"sum/{flav}", P.sum(conv(fin)), _np.sum(fin))
                m = _np.array([[3.0, 0.0, 1.0], [4.0, 2.0, 0.0]])
                check(f"norm-axis0/{flav}", P.linalg.norm(conv(m[:, :2]), axis=0), _np.linalg.norm(m[:, :2], axis=0))
                check(f"max-axis/{flav}", P.max(conv(m), axis=1, initial=-math.inf), _np.max(m, axis=1, initial=-math.inf))
                check(f"nanmin-axis/{flav}", P.nanmin(conv(m), axis=0), _np.nanmin(m, axis=0))
            check("linspace", P.linspace(lift(0.25), lift(1.0), 4), _np.linspace(0.25, 1.0, 4))
            check("smax", symnp.s_max(lift(a[0]), 0.0) if a[0] == a[0] else 0.0, max(a[0], 0.0) if a[0] == a[0] else 0.0)
            check("smin", symnp.s_min(lift(a[0]), 1.0) if a[0] == a[0] else 0.0, min(a[0], 1.0) if a[0] == a[0] else 0.0)
    for seq, want in (([lift(2.0)], 2.0), ([3], 3), ([1.0, lift(4.0), 2.0], 4.0)):
        check("smax-iterable", symnp.s_max(v for v in seq), want)
        check("smin-iterable", symnp.s_min(v for v in seq), min(_conc(v) for v in seq))
    check("smax-args", symnp.s_max(lift(1.0), 2.0, 1.5), 2.0)
    # creation functions keep the object-dtype invariant
    for nm, arr in (("zeros", P.zeros(3)), ("ones", P.ones((2, 2))), ("empty", P.empty(2)), ("full", P.full(2, math.nan)),
                    ("eye", P.eye(2)), ("array", P.array([1.0, 2.0])), ("asarray", P.asarray(_np.array([1.0]))),
                    ("array-float", P.array([1, 2], dtype=symnp.s_float)), ("copy", P.copy(_np.array([1.0])))):
        cases += 1
        if arr.dtype != object:
            failures.append((f"dtype/{nm}", str(arr.dtype), "object"))
    core.set_engine(old_engine)
    return dict(cases=cases, failures=failures)
