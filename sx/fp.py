"""Bit-precise second opinion: translate a path condition and a negated assertion
built over z3 reals (with core.SIMPLIFY off, so that every term mirrors the
order of the floating-point operations the code performed) into IEEE-754
binary64 terms (round-to-nearest-even) and let z3's FP solver decide them.

Used for the clauses of C01 that the property states bit-exactly ("exactly
within the bounds"): the real-arithmetic verdict says nothing about the last
rounding, the Float64 verdict does.
"""
import math
from fractions import Fraction

import z3

F64 = z3.Float64()
RM = z3.RNE()


class Untranslatable(Exception):
    pass


def _num(e):
    fr = Fraction(e.numerator_as_long(), e.denominator_as_long())
    f = float(fr)
    if Fraction(f) != fr:
        # constants of the code are doubles; anything else was produced by exact reasoning
        raise Untranslatable(f"non-double constant {fr}")
    return z3.FPVal(f, F64)


def to_fp(e, cache=None):
    """z3 Real/Bool expression -> FP/Bool expression with the same operation tree."""
    if cache is None:
        cache = {}
    key = e.get_id()
    if key in cache:
        return cache[key]
    r = _to_fp(e, cache)
    cache[key] = r
    return r


def _fold(op, args):
    r = args[0]
    for a in args[1:]:
        r = op(RM, r, a)
    return r


def _to_fp(e, cache):
    if z3.is_rational_value(e):
        return _num(e)
    if z3.is_true(e) or z3.is_false(e):
        return e
    if z3.is_const(e) and e.decl().kind() == z3.Z3_OP_UNINTERPRETED:
        if e.sort() == z3.RealSort():
            return z3.FP(str(e), F64)
        if e.sort() == z3.BoolSort():
            return e
        raise Untranslatable(f"constant of sort {e.sort()}")
    k = e.decl().kind()
    ch = [to_fp(c, cache) for c in e.children()]
    if k == z3.Z3_OP_ADD:
        return _fold(z3.fpAdd, ch)
    if k == z3.Z3_OP_SUB:
        return _fold(z3.fpSub, ch)
    if k == z3.Z3_OP_MUL:
        return _fold(z3.fpMul, ch)
    if k == z3.Z3_OP_DIV:
        return z3.fpDiv(RM, ch[0], ch[1])
    if k == z3.Z3_OP_UMINUS:
        return z3.fpNeg(ch[0])
    if k == z3.Z3_OP_ITE:
        return z3.If(ch[0], ch[1], ch[2])
    if k == z3.Z3_OP_LE:
        return z3.fpLEQ(ch[0], ch[1])
    if k == z3.Z3_OP_LT:
        return z3.fpLT(ch[0], ch[1])
    if k == z3.Z3_OP_GE:
        return z3.fpGEQ(ch[0], ch[1])
    if k == z3.Z3_OP_GT:
        return z3.fpGT(ch[0], ch[1])
    if k == z3.Z3_OP_EQ:
        if e.children()[0].sort() == z3.BoolSort():
            return ch[0] == ch[1]
        return z3.fpEQ(ch[0], ch[1])
    if k == z3.Z3_OP_DISTINCT:
        return z3.Not(z3.fpEQ(ch[0], ch[1]))
    if k == z3.Z3_OP_AND:
        return z3.And(*ch)
    if k == z3.Z3_OP_OR:
        return z3.Or(*ch)
    if k == z3.Z3_OP_NOT:
        return z3.Not(ch[0])
    if k == z3.Z3_OP_IMPLIES:
        return z3.Implies(ch[0], ch[1])
    raise Untranslatable(f"operator {e.decl().name()}")


def fp_vars(exprs):
    seen = {}

    def walk(e):
        if z3.is_const(e) and e.decl().kind() == z3.Z3_OP_UNINTERPRETED and e.sort() == z3.RealSort():
            seen[str(e)] = e
        for c in e.children():
            walk(c)
    for e in exprs:
        walk(e)
    return seen


def check_fp(pc, extra, timeout_ms=120000):
    """Satisfiability of pc /\\ extra under binary64 semantics.
    Returns (verdict, {real var name: python float})."""
    try:
        cache = {}
        conj = [to_fp(c, cache) for c in list(pc) + list(extra)]
    except Untranslatable as ex:
        return "untranslatable: %s" % ex, {}
    s = z3.Solver()
    s.set("timeout", timeout_ms)
    names = fp_vars(list(pc) + list(extra))
    for nm in names:
        v = z3.FP(nm, F64)
        s.add(z3.Not(z3.fpIsNaN(v)), z3.Not(z3.fpIsInf(v)))
    s.add(*conj)
    r = str(s.check())
    vals = {}
    if r == "sat":
        m = s.model()
        for nm in names:
            val = m.eval(z3.FP(nm, F64), model_completion=True)
            vals[nm] = _fp_to_float(val)
    return r, vals


def _fp_to_float(val):
    if z3.is_fp_value(val):
        if val.isNaN():
            return math.nan
        if val.isInf():
            return -math.inf if val.isNegative() else math.inf
        sig = Fraction(val.significand_as_long(), 2 ** (val.sbits() - 1)) if hasattr(val, "significand_as_long") else None
        try:
            return float(Fraction(str(z3.simplify(z3.fpToReal(val)).as_fraction())))
        except Exception:
            return float(eval(str(val).replace("*(2**", "*(2.0**")))
    return 0.0
