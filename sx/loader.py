"""Load the real cobyqa sources from /repo (working tree, at check time) under an
alias package, in one of two modes:

* ``symbolic=True``: module-global ``np`` is replaced by the proxy, ``float``/
  ``max``/``min``/``abs``/``int`` by shims, the scipy constraint classes by
  scipy's own ``_constraints.py`` re-loaded under the proxy (with the three
  ``*VectorFunction`` classes modelled), ``eigh``/``qr``/``lsq_linear`` by
  wrappers that concretise.  The *functions* are the unmodified ones.
* ``symbolic=False``: the same sources, untouched, on real numpy/scipy (used for
  native replay and translator validation).
"""
import hashlib
import importlib.util
import os
import sys

import numpy as _np

from . import symnp, core

REPO = os.environ.get("COBYQA_REPO", "/repo")


class MissingName(Exception):
    """A name a harness binds to has disappeared from the repo (exit 2)."""


# ---------------------------------------------------------------------------
# scipy under the proxy
# ---------------------------------------------------------------------------

class ModelLinearVectorFunction:
    """scipy.optimize._differentiable_functions.LinearVectorFunction.fun"""

    def __init__(self, A, x0, sparse_jacobian):
        self.J = symnp.np.atleast_2d(symnp.np.asarray(A))
        self.m, self.n = self.J.shape
        self.x = symnp.np.array(symnp.np.atleast_1d(x0), dtype=float)
        self.f = self.J.dot(self.x)
        self.f_updated = True

    def _update_x(self, x):
        if not symnp.np.array_equal(x, self.x):
            self.x = symnp.np.array(symnp.np.atleast_1d(x), dtype=float)
            self.f_updated = False

    def fun(self, x):
        self._update_x(x)
        if not self.f_updated:
            self.f = self.J.dot(x)
            self.f_updated = True
        return self.f


class ModelIdentityVectorFunction(ModelLinearVectorFunction):
    def __init__(self, x0, sparse_jacobian):
        n = len(x0)
        super().__init__(_np.eye(n), x0, sparse_jacobian)


class ModelVectorFunction:
    """One-entry cache keyed on x; transcribed from
    scipy/optimize/_differentiable_functions.py (VectorFunction.__init__,
    _update_x, _update_fun, fun) for a callable ``jac``."""

    def __init__(self, fun, x0, jac, hess, *a, **k):
        if not callable(jac):
            raise core.EngineError("ModelVectorFunction: finite-difference jac not modelled")
        self.x = symnp.np.array(symnp.np.atleast_1d(x0), dtype=float)
        self.n = self.x.size
        self._fun = fun
        self._nfev = 0
        self.f_updated = False
        self._update_fun()
        self.m = self.f.size
        self.J = jac(symnp.np.copy(self.x))

    @property
    def nfev(self):
        return self._nfev

    def _update_x(self, x):
        if not symnp.np.array_equal(x, self.x):
            self.x = symnp.np.array(symnp.np.atleast_1d(x), dtype=float)
            self.f_updated = False

    def _update_fun(self):
        if not self.f_updated:
            self.f = symnp.np.atleast_1d(self._fun(symnp.np.copy(self.x)))
            self._nfev += 1
            self.f_updated = True

    def fun(self, x):
        self._update_x(x)
        self._update_fun()
        return symnp.np.copy(self.f)


_SCIPY_SX = None


def scipy_constraints_sx():
    """scipy/optimize/_constraints.py executed a second time, then rebound to the proxy."""
    global _SCIPY_SX
    if _SCIPY_SX is not None:
        return _SCIPY_SX
    import scipy.optimize._constraints as real
    spec = importlib.util.spec_from_file_location("scipy.optimize._constraints_sx", real.__file__)
    m = importlib.util.module_from_spec(spec)
    m.__package__ = "scipy.optimize"
    spec.loader.exec_module(m)
    m.np = symnp.np
    m.float = symnp.s_float
    m.VectorFunction = ModelVectorFunction
    m.LinearVectorFunction = ModelLinearVectorFunction
    m.IdentityVectorFunction = ModelIdentityVectorFunction
    _SCIPY_SX = m
    return m


class OptimizeResult(dict):
    """scipy.optimize.OptimizeResult without the pretty-printer."""

    def __getattr__(self, name):
        try:
            return self[name]
        except KeyError as e:
            raise AttributeError(name) from e

    __setattr__ = dict.__setitem__
    __delattr__ = dict.__delitem__


# ---------------------------------------------------------------------------
# LAPACK boundaries
# ---------------------------------------------------------------------------

def _conc_call(f):
    def g(*a, **k):
        r = f(*[symnp.conc(v) for v in a], **{kk: symnp.conc(v) for kk, v in k.items()})
        return symnp._post(r)
    g.__name__ = getattr(f, "__name__", "lapack")
    g._sx_wrapped = f
    return g


def _lsq_wrapper(real):
    def lsq_linear(A, b, bounds=(-_np.inf, _np.inf), **k):
        res = real(symnp.conc(A), symnp.conc(b), bounds=tuple(symnp.conc(v) for v in bounds), **k)
        res.x = symnp._post(res.x)
        return res
    lsq_linear._sx_wrapped = real
    return lsq_linear


# ---------------------------------------------------------------------------

def file_hashes():
    out = {}
    base = os.path.join(REPO, "cobyqa")
    for root, _, files in os.walk(base):
        if "tests" in root.split(os.sep):
            continue
        for fn in sorted(files):
            if fn.endswith(".py"):
                p = os.path.join(root, fn)
                with open(p, "rb") as fh:
                    out[os.path.relpath(p, REPO)] = hashlib.sha1(fh.read()).hexdigest()[:12]
    return out


class Mods:
    """Handles to the loaded modules of one alias package."""

    def __init__(self, pkgname, symbolic):
        self.pkgname = pkgname
        self.symbolic = symbolic
        g = sys.modules
        self.pkg = g[pkgname]
        self.main = g[pkgname + ".main"]
        self.problem = g[pkgname + ".problem"]
        self.framework = g[pkgname + ".framework"]
        self.models = g[pkgname + ".models"]
        self.settings = g[pkgname + ".settings"]
        self.utils = g[pkgname + ".utils"]
        self.umath = g[pkgname + ".utils.math"]
        self.uexc = g[pkgname + ".utils.exceptions"]
        self.optim = g[pkgname + ".subsolvers.optim"]
        self.geometry = g[pkgname + ".subsolvers.geometry"]
        self.subsolvers = g[pkgname + ".subsolvers"]
        if symbolic:
            sc = scipy_constraints_sx()
            self.np = symnp.np
        else:
            import scipy.optimize._constraints as sc
            self.np = _np
        self.Bounds = sc.Bounds
        self.LinearConstraint = sc.LinearConstraint
        self.NonlinearConstraint = sc.NonlinearConstraint
        self.PreparedConstraint = sc.PreparedConstraint
        self._saved = {}

    def all_modules(self):
        return [m for k, m in sys.modules.items()
                if (k == self.pkgname or k.startswith(self.pkgname + ".")) and m is not None]

    def need(self, module, name):
        if not hasattr(module, name):
            raise MissingName(f"{module.__name__.split('.', 1)[-1]}.{name} not found in {REPO}")
        return getattr(module, name)

    # monkey-patching with restore (stubs are per harness)
    def patch(self, module, name, value):
        key = (module.__name__, name)
        if key not in self._saved:
            self._saved[key] = (module, name, getattr(module, name, _MISSING))
        setattr(module, name, value)

    def patch_everywhere(self, name, value, only=None):
        """Rebind `name` in every loaded module that has it as a global."""
        for m in self.all_modules():
            if only is not None and m not in only:
                continue
            if name in m.__dict__:
                self.patch(m, name, value)

    def restore(self):
        for module, name, old in self._saved.values():
            if old is _MISSING:
                try:
                    delattr(module, name)
                except AttributeError:
                    pass
            else:
                setattr(module, name, old)
        self._saved = {}


_MISSING = object()
_LOADED = {}


def load(symbolic=True, fresh=False):
    """Import /repo/cobyqa under an alias package; returns Mods."""
    pkgname = "cobyqa_sx" if symbolic else "cobyqa_nat"
    if not fresh and pkgname in _LOADED:
        return _LOADED[pkgname]
    for k in [k for k in sys.modules if k == pkgname or k.startswith(pkgname + ".")]:
        del sys.modules[k]
    init = os.path.join(REPO, "cobyqa", "__init__.py")
    if not os.path.exists(init):
        raise MissingName(f"{init} not found")
    spec = importlib.util.spec_from_file_location(
        pkgname, init, submodule_search_locations=[os.path.join(REPO, "cobyqa")])
    pkg = importlib.util.module_from_spec(spec)
    sys.modules[pkgname] = pkg
    old = sys.dont_write_bytecode
    sys.dont_write_bytecode = True
    try:
        spec.loader.exec_module(pkg)
    finally:
        sys.dont_write_bytecode = old
    mods = Mods(pkgname, symbolic)
    if symbolic:
        sc = scipy_constraints_sx()
        for m in mods.all_modules():
            d = m.__dict__
            if "np" in d:
                d["np"] = symnp.np
            for nm in ("Bounds", "LinearConstraint", "NonlinearConstraint", "PreparedConstraint"):
                if nm in d:
                    d[nm] = getattr(sc, nm)
            if "OptimizeResult" in d:
                d["OptimizeResult"] = OptimizeResult
            for nm in ("eigh", "qr"):
                if nm in d and not hasattr(d[nm], "_sx_wrapped"):
                    d[nm] = _conc_call(d[nm])
            if "lsq_linear" in d and not hasattr(d["lsq_linear"], "_sx_wrapped"):
                d["lsq_linear"] = _lsq_wrapper(d["lsq_linear"])
            if m.__name__.endswith(".tests") or ".tests." in m.__name__:
                continue
            d["float"] = symnp.s_float
            d["max"] = symnp.s_max
            d["min"] = symnp.s_min
            d["int"] = symnp.s_int
    _LOADED[pkgname] = mods
    return mods
