"""Parallel driver: explores harness shapes over a process pool, discharges the
property assertions with the solver, replays counterexamples and sampled
witness paths natively, and aggregates what was covered.
"""
import json
import math
import multiprocessing as mp
import os
import random
import sys
import time
import traceback
import zlib

import z3

from . import core, loader
from .core import Engine, NativeEngine, set_engine, SymBool, SymFloat, ReplayDiverged, PathAbort


class Claim:
    """One assertion of a property on one path."""
    __slots__ = ("prop", "clause", "cond", "sig", "info")

    def __init__(self, prop, clause, cond, sig="", info=None):
        self.prop, self.clause, self.cond, self.sig, self.info = prop, clause, cond, sig, info


class Ctx:
    def __init__(self, e, M):
        self.e = e
        self.M = M
        self.np = M.np
        self.sym = e.mode == "sym"

    def arr(self, xs):
        """1-d / n-d float array of the right flavour for this mode."""
        if self.sym:
            import numpy as _np
            a = _np.array(xs, dtype=object)
            return a
        import numpy as _np
        return _np.array(xs, dtype=float)


# ---------------------------------------------------------------------------
# coverage of repo functions (sys.monitoring, one event per code object)
# ---------------------------------------------------------------------------

class FuncCoverage:
    TOOL = 3

    def __init__(self):
        self.seen = set()
        self.on = False

    def start(self):
        mon = getattr(sys, "monitoring", None)
        if mon is None or self.on:
            return
        try:
            mon.use_tool_id(self.TOOL, "sx-cov")
        except ValueError:
            return
        repo = os.path.join(loader.REPO, "cobyqa") + os.sep

        def cb(code, off):
            fn = code.co_filename
            if fn.startswith(repo):
                self.seen.add(f"{os.path.relpath(fn, loader.REPO)}:{code.co_qualname}")
            return mon.DISABLE

        mon.register_callback(self.TOOL, mon.events.PY_START, cb)
        mon.set_events(self.TOOL, mon.events.PY_START)
        self.on = True

    def stop(self):
        mon = getattr(sys, "monitoring", None)
        if mon is None or not self.on:
            return
        mon.set_events(self.TOOL, 0)
        mon.register_callback(self.TOOL, mon.events.PY_START, None)
        mon.free_tool_id(self.TOOL)
        self.on = False


# ---------------------------------------------------------------------------
# native replay
# ---------------------------------------------------------------------------

def _truth(cond):
    """Concrete truth value of a claim condition evaluated on concrete data."""
    if isinstance(cond, SymBool):
        v = z3.simplify(cond.e)
    elif isinstance(cond, z3.ExprRef):
        v = z3.simplify(cond)
    else:
        return bool(cond)
    if z3.is_true(v):
        return True
    if z3.is_false(v):
        return False
    raise ReplayDiverged("claim not concrete on native replay")


def native_run(H, shape, choices, values):
    """Run harness H natively on a recorded path.  Returns (obs, claims, goals)."""
    M = loader.load(False)
    e = NativeEngine(choices, values)
    old = core.engine()
    set_engine(e)
    ctx = Ctx(e, M)
    M.restore()
    try:
        H.prepare(ctx, shape)
        obs = H.run(ctx, shape)
        claims, goals = H.judge(ctx, shape, obs)
        return obs, claims, goals
    finally:
        M.restore()
        set_engine(old)


def native_check(H, shape, cand):
    """Does the recorded counterexample violate the same clause natively?
    Returns ('reproduced'|'not-reproduced'|'diverged', detail)."""
    try:
        obs, claims, goals = native_run(H, shape, cand["choices"], cand["values"])
    except ReplayDiverged as ex:
        return "diverged", str(ex)
    except PathAbort as ex:
        return "diverged", f"path abort: {ex}"
    except Exception as ex:       # the harness converts repo exceptions into observations
        return "diverged", f"{type(ex).__name__}: {ex}"
    hit = False
    for c in claims:
        if c.prop == cand["prop"] and c.clause == cand["clause"]:
            try:
                if not _truth(c.cond):
                    hit = True
            except ReplayDiverged:
                return "diverged", "claim not concrete"
    return ("reproduced", "") if hit else ("not-reproduced", "")


def _digest_native(x):
    if isinstance(x, (list, tuple)):
        return [_digest_native(v) for v in x]
    if isinstance(x, (str, int, bool)) or x is None:
        return x
    import numpy as _np
    if isinstance(x, _np.ndarray):
        return [_digest_native(v) for v in x.tolist()]
    if isinstance(x, _np.bool_):
        return bool(x)
    return float(x)


def _digest_sym(x, model):
    if isinstance(x, (list, tuple)):
        return [_digest_sym(v, model) for v in x]
    if isinstance(x, (str, int, bool)) or x is None:
        return x
    import numpy as _np
    if isinstance(x, _np.ndarray):
        return [_digest_sym(v, model) for v in x.tolist()]
    if isinstance(x, SymFloat):
        if x.k != core.FIN:
            return {core.PINF: math.inf, core.NINF: -math.inf, core.NAN: math.nan}[x.k]
        return core._model_float(model, x.r)
    if isinstance(x, SymBool):
        return bool(z3.is_true(model.eval(x.e, model_completion=True)))
    return float(x)


def _same(a, b, tol=1e-7):
    if isinstance(a, list) and isinstance(b, list):
        return len(a) == len(b) and all(_same(u, v, tol) for u, v in zip(a, b))
    if isinstance(a, float) or isinstance(b, float):
        try:
            a, b = float(a), float(b)
        except (TypeError, ValueError):
            return False
        if math.isnan(a) or math.isnan(b):
            return math.isnan(a) and math.isnan(b)
        if math.isinf(a) or math.isinf(b):
            return a == b
        return abs(a - b) <= tol * max(1.0, abs(a), abs(b))
    return a == b


# ---------------------------------------------------------------------------
# worker
# ---------------------------------------------------------------------------

def _new_result():
    return dict(paths=0, claims=0, discharged=0, cex=0, inconclusive=0, cands={}, goals={},
                goal_witness={}, witnesses_ok=0, witnesses_diverged=0, witnesses_mismatch=0,
                mismatch_samples=[], samples=[], funcs=[], stats={}, errors=[], inconclusive_list=[],
                claims_by_clause={}, loop_bound_exceeded=0, paths_by_shape={}, fp_checked=0, fp_unsat=0, fp_sat=0,
                fp_other=0, fp_solver_s=0.0)


def run_task(task):
    """Explore part of one shape.  Runs in a worker process."""
    from harness import HARNESSES
    hname, shape, prefixes, props, opts = task
    H = HARNESSES[hname]
    res = _new_result()
    try:
        M = loader.load(True)
        eo = H.engine_opts(shape)
        e = Engine(timeout_ms=eo.get("timeout_ms", 5000), nlsat=eo.get("nlsat", False),
                   assert_timeout_ms=eo.get("assert_timeout_ms"))
        core.MERGE[0] = eo.get("merge", True)
        core.SIMPLIFY[0] = eo.get("simplify", True)
        set_engine(e)
        ctx = Ctx(e, M)
        M.restore()
        H.prepare(ctx, shape)
        cov = FuncCoverage()
        cov.start()
        rng = random.Random(opts.get("seed", 0) * 7919 + zlib.crc32(json.dumps(shape, sort_keys=True).encode()) % 100003)
        wit_rate = opts.get("witness_rate", 0.02)
        max_cands = opts.get("max_cands", 3)

        def fn(e_):
            return H.run(ctx, shape)

        def on_path(e_, obs):
            res["paths"] += 1
            saved_merge = core.MERGE[0]
            core.MERGE[0] = True          # judging never forks: min/max/abs become ite terms
            e_.judging = True
            try:
                claims, goals = H.judge(ctx, shape, obs)
            finally:
                core.MERGE[0] = saved_merge
                e_.judging = False
            for g in goals:
                res["goals"][g] = res["goals"].get(g, 0) + 1
            mine = [c for c in claims if c.prop in props]
            first = res["paths"] == 1
            for c in mine:
                res["claims"] += 1
                ck = f"{c.prop}:{c.clause}"
                res["claims_by_clause"][ck] = res["claims_by_clause"].get(ck, 0) + 1
                neg = core.b_not(c.cond)
                if neg is False:
                    res["discharged"] += 1
                    continue
                if neg is True:
                    r = "sat"
                    negz = z3.BoolVal(True)
                else:
                    negz = core._b(neg)
                    r = e_.check(negz, timeout=e_.assert_timeout_ms)
                if r == "unsat" and c.info and c.info.get("fp"):
                    # bit-precise second opinion (binary64, round to nearest even) on the same path
                    from . import fp as _fp
                    t_fp = time.time()
                    verdict, fvals = _fp.check_fp(e_.pc, [negz], timeout_ms=eo.get("fp_timeout_ms", 120000))
                    res["fp_solver_s"] += time.time() - t_fp
                    res["fp_checked"] += 1
                    if verdict == "unsat":
                        res["fp_unsat"] += 1
                        res["discharged"] += 1
                    elif verdict == "sat":
                        res["fp_sat"] += 1
                        res["cex"] += 1
                        key = f"{c.prop}:{hname}:{c.clause}:{c.sig}:float64"
                        lst = res["cands"].setdefault(key, [])
                        if len(lst) < max_cands:
                            vals = []
                            for name, kind, var in e_.fresh_log:
                                if kind == core.FIN:
                                    vals.append(fvals.get(str(var), 0.0))
                                else:
                                    vals.append({core.PINF: math.inf, core.NINF: -math.inf, core.NAN: math.nan}[kind])
                            lst.append(dict(prop=c.prop, clause=c.clause, sig=c.sig, harness=hname, shape=shape,
                                            choices=list(e_.choices), values=_jsonable(vals), info=c.info, key=key))
                    else:
                        res["fp_other"] += 1
                        res["inconclusive"] += 1
                        if len(res["inconclusive_list"]) < 5:
                            res["inconclusive_list"].append(f"{hname}:{c.prop}:{c.clause}:float64:{verdict}")
                elif r == "unsat":
                    res["discharged"] += 1
                elif r == "sat":
                    res["cex"] += 1
                    key = f"{c.prop}:{hname}:{c.clause}:{c.sig}"
                    lst = res["cands"].setdefault(key, [])
                    if len(lst) < max_cands:
                        vals = e_.nice_model(negz, timeout=e_.assert_timeout_ms)
                        if vals is None:
                            vals = e_.model_values()
                        lst.append(dict(prop=c.prop, clause=c.clause, sig=c.sig, harness=hname, shape=shape,
                                        choices=list(e_.choices), values=_jsonable(vals),
                                        info=c.info, key=key))
                else:
                    res["inconclusive"] += 1
                    if len(res["inconclusive_list"]) < 5:
                        res["inconclusive_list"].append(f"{hname}:{c.prop}:{c.clause}:{json.dumps(shape, sort_keys=True)}")
            # reachability witnesses and sampled witness paths, validated natively
            want = first or rng.random() < wit_rate or any(g not in res["goal_witness"] for g in goals)
            if want and opts.get("validate", True):
                if eo.get("nice", True):
                    vals = e_.nice_model()
                else:
                    vals = e_.model_values() if e_.check() == "sat" else None
                if vals is not None:
                    model = e_.last_model
                    dg = H.digest(ctx, shape, obs)
                    sdig = _digest_sym(dg, model) if dg is not None else None
                    wit = dict(harness=hname, shape=shape, choices=list(e_.choices), values=_jsonable(vals))
                    for g in goals:
                        res["goal_witness"].setdefault(g, wit)
                    try:
                        nobs, _, _ = native_run(H, shape, wit["choices"], vals)
                        set_engine(e_)
                        ndig = _digest_native(H.digest(None, shape, nobs)) if sdig is not None else None
                        if sdig is None or _same(sdig, ndig):
                            res["witnesses_ok"] += 1
                            if len(res["samples"]) < 2:
                                res["samples"].append(dict(harness=hname, shape=shape, choices=wit["choices"],
                                                           values=wit["values"], digest=_jsonable(ndig)))
                        else:
                            res["witnesses_mismatch"] += 1
                            if len(res["mismatch_samples"]) < 3:
                                res["mismatch_samples"].append(dict(wit, sym=_jsonable(sdig), native=_jsonable(ndig)))
                    except (ReplayDiverged, PathAbort) as ex:
                        set_engine(e_)
                        res["witnesses_diverged"] += 1
                    except Exception as ex:
                        set_engine(e_)
                        res["witnesses_mismatch"] += 1
                        if len(res["mismatch_samples"]) < 3:
                            res["mismatch_samples"].append(dict(wit, error=f"{type(ex).__name__}: {ex}",
                                                                tb=traceback.format_exc()[-600:]))

        deadline = opts.get("deadline")
        first = len(prefixes) == 1 and prefixes[0] == []
        n, left = e.explore(fn, on_path, prefixes=prefixes,
                            max_paths=(eo.get("first_task_paths") or opts.get("first_task_paths", 30)) if first
                            else (eo.get("task_paths") or opts.get("task_paths", 1500)),
                            deadline=deadline)
        cov.stop()
        res["funcs"] = sorted(cov.seen)
        res["paths_by_shape"][f"{hname}:{json.dumps(shape, sort_keys=True)}"] = n
        res["stats"] = e.stats()
        M.restore()
        return res, left
    except BaseException as ex:
        res["errors"].append(f"{hname} {json.dumps(shape, sort_keys=True)}: {type(ex).__name__}: {ex}\n"
                             + traceback.format_exc()[-1500:])
        return res, []


def _jsonable(x):
    if isinstance(x, (list, tuple)):
        return [_jsonable(v) for v in x]
    if isinstance(x, dict):
        return {k: _jsonable(v) for k, v in x.items()}
    if isinstance(x, float):
        if math.isnan(x):
            return "nan"
        if math.isinf(x):
            return "inf" if x > 0 else "-inf"
        return x
    return x


def unjson_values(vals):
    out = []
    for v in vals:
        if v == "nan":
            out.append(math.nan)
        elif v == "inf":
            out.append(math.inf)
        elif v == "-inf":
            out.append(-math.inf)
        else:
            out.append(float(v))
    return out


def merge(total, res):
    for k in ("paths", "claims", "discharged", "cex", "inconclusive", "witnesses_ok",
              "witnesses_diverged", "witnesses_mismatch", "loop_bound_exceeded", "fp_checked", "fp_unsat", "fp_sat",
              "fp_other", "fp_solver_s"):
        total[k] += res[k]
    for k, v in res["goals"].items():
        total["goals"][k] = total["goals"].get(k, 0) + v
    for k, v in res["claims_by_clause"].items():
        total["claims_by_clause"][k] = total["claims_by_clause"].get(k, 0) + v
    for k, v in res["paths_by_shape"].items():
        total["paths_by_shape"][k] = total["paths_by_shape"].get(k, 0) + v
    for k, v in res["goal_witness"].items():
        total["goal_witness"].setdefault(k, v)
    for k, v in res["cands"].items():
        lst = total["cands"].setdefault(k, [])
        for c in v:
            if len(lst) < 6:
                lst.append(c)
    for k in ("samples", "mismatch_samples", "errors", "inconclusive_list"):
        for s in res[k]:
            if len(total[k]) < 6:
                total[k].append(s)
    total["funcs"] = sorted(set(total["funcs"]) | set(res["funcs"]))
    for k, v in res["stats"].items():
        if k == "max_depth":
            total["stats"][k] = max(total["stats"].get(k, 0), v)
        else:
            total["stats"][k] = total["stats"].get(k, 0) + v


def explore_all(tasks, props, jobs, opts, log=None):
    """tasks: list of (harness name, shape).  Returns merged result dict."""
    total = _new_result()
    total["unexplored_prefixes"] = 0
    total["shapes"] = len(tasks)
    queue = [(h, s, [[]], props, opts) for (h, s) in tasks]
    deadline = opts.get("deadline")
    t0 = time.time()
    if jobs <= 1:
        while queue:
            t = queue.pop()
            if deadline and time.time() > deadline:
                total["unexplored_prefixes"] += len(t[2])
                continue
            res, left = run_task(t)
            merge(total, res)
            if left:
                queue.append((t[0], t[1], left, props, opts))
        return total
    ctxm = mp.get_context("fork")
    with ctxm.Pool(jobs) as pool:
        pending = []
        # largest shapes first is unknown; just submit everything
        def submit(t):
            pending.append((t, pool.apply_async(run_task, (t,))))
        for t in queue:
            submit(t)
        while pending:
            still = []
            progressed = False
            for t, ar in pending:
                if ar.ready():
                    progressed = True
                    res, left = ar.get()
                    merge(total, res)
                    if left:
                        if deadline and time.time() > deadline:
                            total["unexplored_prefixes"] += len(left)
                        else:
                            # split the leftover prefixes over several new tasks
                            nchunks = min(len(left), max(1, jobs // 2))
                            for i in range(nchunks):
                                chunk = left[i::nchunks]
                                if chunk:
                                    nt = (t[0], t[1], chunk, props, opts)
                                    still.append((nt, pool.apply_async(run_task, (nt,))))
                else:
                    still.append((t, ar))
            pending = still
            if not progressed:
                time.sleep(0.05)
            if log and int(time.time() - t0) % 30 == 0:
                pass
    return total
