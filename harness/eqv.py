"""H-EQV: equivalent statements of a problem are presented identically to the solver (C10).

Real code run symbolically, twice per path (statement A and its restatement B):
main._get_bounds, main._get_constraints, BoundConstraints, LinearConstraints,
NonlinearConstraints, Problem.__init__/__call__/build_x/maxcv/best_eval.
The user's functions are the SAME uninterpreted functions in A and B (B composes
them with the hand transformation).  The oracle compares the complete interface
through which TrustRegion/Models see the problem.
"""
import math
import sys

import numpy as _np

from sx import core, symnp
from sx.core import FIN, NAN, PINF, NINF, lift, b_and, b_or, b_not, b_implies, SymFloat
from sx.runner import Claim
from .base import Harness, isnan, isfin, all_of, any_of, same_value, close
from .oracles import vmax

INF = math.inf
MARGIN = 1e-7


def lst(a):
    return list(_np.asarray(a, dtype=object).ravel())


def rows(a):
    a = _np.asarray(a, dtype=object)
    return [list(r) for r in a] if a.ndim == 2 else []


class Eqv(Harness):
    name = "eqv"
    serves = ("C10",)
    functions = ("cobyqa/main.py:_get_bounds", "cobyqa/main.py:_get_constraints",
                 "cobyqa/problem.py:Problem.__init__", "cobyqa/problem.py:Problem.__call__",
                 "cobyqa/problem.py:Problem.build_x", "cobyqa/problem.py:LinearConstraints.__init__",
                 "cobyqa/problem.py:NonlinearConstraints.__call__")
    stubs = ("user objective / constraint functions are uninterpreted functions of the user-space point (the same in both statements)",)
    assumptions = ("'same sequence of evaluated points and same result' is concluded from identity of the complete Problem interface "
                   "(n, x0, bounds, linear arrays row by row, type, counts, values/violation returned for an arbitrary internal point, "
                   "user-space image of that point): TrustRegion and Models touch the problem only through it and are deterministic",
                   "finite data of magnitude <= 1e3; two-sided intervals wider than 1e-3; linear coefficients concrete")

    def engine_opts(self, shape):
        return dict(timeout_ms=10000)

    def shapes(self, tier, prop=None):
        S = [dict(pair="fixed", lin=1, nl=1), dict(pair="fixed", lin=1, nl=0), dict(pair="fixed2", lin=1, nl=1),
             dict(pair="bounds-form", n=2), dict(pair="dict", typ="ineq"), dict(pair="dict", typ="eq"), dict(pair="dict2"),
             dict(pair="two-sided-nl"), dict(pair="two-sided-lin"),
             dict(pair="regroup-lin"), dict(pair="regroup-nl"),
             dict(pair="scale", n=1, lin=1, nl=1), dict(pair="scale", n=2, lin=1, nl=1),
             dict(pair="scale", n=1, lin=2, nl=1, fixed=True)]
        if tier == "thorough":
            # (regrouping TWO-SIDED rows permutes the internal rows - lower sides of an object first - which the
            # interface comparison would flag although it is a representation difference; not explored)
            S += [dict(pair="scale", n=2, lin=2, nl=2), dict(pair="fixed", lin=2, nl=2)]
        return S

    # ------------------------------------------------------------------
    def _build(self, ctx, n, x0, bounds, cons, fun, scale, log):
        """the construction path of minimize; returns the Problem"""
        M = ctx.M
        main, P = M.main, M.problem
        obj = P.ObjectiveFunction(fun, False, False)
        bnds = P.BoundConstraints(main._get_bounds(bounds, n))
        lcs, ncs = main._get_constraints(cons)
        linear = P.LinearConstraints(lcs, n, False)
        nonlinear = P.NonlinearConstraints(ncs, False, False)
        return P.Problem(obj, ctx.arr(x0), bnds, linear, nonlinear, None, 2.0 ** -20, bool(scale), False, 1,
                         sys.maxsize, False)

    def run(self, ctx, shape):
        e, M, np = ctx.e, ctx.M, ctx.np
        pair = shape["pair"]
        fin = lambda s, lo=-1e3, hi=1e3: e.fresh_in(s, lo, hi)
        logA, logB = [], []
        F = lambda x: e.uf("F", x)
        Cn = lambda j, x: e.uf(f"C{j}", x)
        grid = [[1.0, -2.0], [0.5, 3.0]]

        def spy(log, name, f):
            def g(x, *a):
                xs = lst(x)
                v = f(xs)
                log.append((name, xs, v))
                return v
            return g

        out = dict(shape=shape)
        try:
            if pair in ("fixed", "fixed2"):
                # A: two (three) variables, the last one(s) fixed by equal bounds; B: eliminated by hand
                nfix = 1 if pair == "fixed" else 2
                n = 1 + nfix
                l0, u0 = fin("l0"), fin("u0")
                e.assume(u0 - l0 >= 1e-3)
                cs = [fin(f"c{i}") for i in range(nfix)]
                x0 = [fin("x00")] + [fin(f"x0{i + 1}") for i in range(nfix)]
                rowsA = [(grid[r % 2] + [0.75])[:n] for r in range(shape["lin"])]
                ub = [fin(f"b{r}") for r in range(shape["lin"])]
                consA = [M.LinearConstraint(ctx.arr([rowsA[r]]), ctx.arr([-INF]), ctx.arr([ub[r]])) for r in range(shape["lin"])]
                consB = []
                for r in range(shape["lin"]):
                    shift = lift(0.0)
                    for i in range(nfix):
                        shift = shift + rowsA[r][1 + i] * lift(cs[i])
                    consB.append(M.LinearConstraint(ctx.arr([[rowsA[r][0]]]), ctx.arr([-INF]), ctx.arr([lift(ub[r]) - shift if ctx.sym else ub[r] - float(shift)])))
                for j in range(shape["nl"]):
                    lj = fin(f"nl{j}")
                    consA.append(M.NonlinearConstraint(spy(logA, f"c{j}", lambda xs, j=j: Cn(j, xs)), ctx.arr([lj]), ctx.arr([INF])))
                    consB.append(M.NonlinearConstraint(spy(logB, f"c{j}", lambda xs, j=j: Cn(j, xs + cs)), ctx.arr([lj]), ctx.arr([INF])))
                pbA = self._build(ctx, n, x0, M.Bounds(ctx.arr([l0] + cs), ctx.arr([u0] + cs)), consA, spy(logA, "f", F), False, logA)
                pbB = self._build(ctx, 1, x0[:1], M.Bounds(ctx.arr([l0]), ctx.arr([u0])), consB,
                                  spy(logB, "f", lambda xs: F(xs + cs)), False, logB)
                mapB = lambda xb: xb + cs
            elif pair == "bounds-form":
                n = shape["n"]
                lbs = [fin(f"l{i}") for i in range(n)]
                ubs = [fin(f"u{i}") for i in range(n)]
                for i in range(n):
                    e.assume(lift(ubs[i]) - lbs[i] >= 1e-3) if ctx.sym else e.assume(ubs[i] - lbs[i] >= 1e-3)
                x0 = [fin(f"x0{i}") for i in range(n)]
                arr = [[lbs[i], ubs[i]] for i in range(n)]
                if ctx.sym:
                    arr = _np.array(arr, dtype=object)
                pbA = self._build(ctx, n, x0, M.Bounds(ctx.arr(lbs), ctx.arr(ubs)), [], spy(logA, "f", F), False, logA)
                pbB = self._build(ctx, n, x0, arr, [], spy(logB, "f", F), False, logB)
                mapB = lambda xb: xb
            elif pair == "dict":
                n = 1
                x0 = [fin("x0")]
                lim = (0.0, INF) if shape["typ"] == "ineq" else (0.0, 0.0)
                consA = [M.NonlinearConstraint(spy(logA, "c0", lambda xs: Cn(0, xs)), ctx.arr([lim[0]]), ctx.arr([lim[1]]))]
                extra = fin("arg")
                consB = [{"type": shape["typ"], "fun": spy(logB, "c0", lambda xs: Cn(0, xs)), "args": ()}]
                pbA = self._build(ctx, n, x0, None, consA, spy(logA, "f", F), False, logA)
                pbB = self._build(ctx, n, x0, None, consB, spy(logB, "f", F), False, logB)
                mapB = lambda xb: xb
            elif pair == "dict2":
                # two dict constraints with different extra arguments vs the equivalent NonlinearConstraint objects
                n = 1
                x0 = [fin("x0")]
                a0, a1 = fin("arg0"), fin("arg1")
                mkA = lambda j, a: spy(logA, f"c{j}", lambda xs, j=j, a=a: Cn(j, xs + [a]))
                consA = [M.NonlinearConstraint(mkA(0, a0), ctx.arr([0.0]), ctx.arr([INF])),
                         M.NonlinearConstraint(mkA(1, a1), ctx.arr([0.0]), ctx.arr([0.0]))]

                def userfun(j):
                    def g(x, a):
                        xs = lst(x)
                        v = Cn(j, xs + [a])
                        logB.append((f"c{j}", xs, v))
                        return v
                    return g
                consB = [{"type": "ineq", "fun": userfun(0), "args": (a0,)},
                         {"type": "eq", "fun": userfun(1), "args": (a1,)}]
                pbA = self._build(ctx, n, x0, None, consA, spy(logA, "f", F), False, logA)
                pbB = self._build(ctx, n, x0, None, consB, spy(logB, "f", F), False, logB)
                mapB = lambda xb: xb
            elif pair in ("two-sided-nl", "two-sided-lin"):
                n = 1
                x0 = [fin("x0")]
                l, u = fin("l"), fin("u")
                e.assume(u - l >= 1e-3)
                if pair == "two-sided-nl":
                    consA = [M.NonlinearConstraint(spy(logA, "c0", lambda xs: Cn(0, xs)), ctx.arr([l]), ctx.arr([u]))]
                    # (the internal form lists the lower sides of an object before its upper sides)
                    consB = [M.NonlinearConstraint(spy(logB, "c0", lambda xs: Cn(0, xs)), ctx.arr([l]), ctx.arr([INF])),
                             M.NonlinearConstraint(spy(logB, "c0", lambda xs: Cn(0, xs)), ctx.arr([-INF]), ctx.arr([u]))]
                else:
                    consA = [M.LinearConstraint(ctx.arr([[2.0]]), ctx.arr([l]), ctx.arr([u]))]
                    consB = [M.LinearConstraint(ctx.arr([[2.0]]), ctx.arr([-INF]), ctx.arr([u])),
                             M.LinearConstraint(ctx.arr([[2.0]]), ctx.arr([l]), ctx.arr([INF]))]
                pbA = self._build(ctx, n, x0, None, consA, spy(logA, "f", F), False, logA)
                pbB = self._build(ctx, n, x0, None, consB, spy(logB, "f", F), False, logB)
                mapB = lambda xb: xb
            elif pair.startswith("regroup"):
                n = 2
                x0 = [fin("x00"), fin("x01")]
                two = pair.endswith("two-sided")
                us = [fin("u0"), fin("u1")]
                ls = [fin("l0"), fin("l1")] if two else [-INF, -INF]
                if two:
                    for i in range(2):
                        e.assume(lift(us[i]) - ls[i] >= 1e-3) if ctx.sym else e.assume(us[i] - ls[i] >= 1e-3)
                if "lin" in pair:
                    consA = [M.LinearConstraint(ctx.arr(grid), ctx.arr(ls), ctx.arr(us))]
                    consB = [M.LinearConstraint(ctx.arr([grid[0]]), ctx.arr([ls[0]]), ctx.arr([us[0]])),
                             M.LinearConstraint(ctx.arr([grid[1]]), ctx.arr([ls[1]]), ctx.arr([us[1]]))]
                else:
                    consA = [M.NonlinearConstraint(spy(logA, "c01", lambda xs: ctx.arr([Cn(0, xs), Cn(1, xs)])), ctx.arr(ls), ctx.arr(us))]
                    consB = [M.NonlinearConstraint(spy(logB, "c0", lambda xs: Cn(0, xs)), ctx.arr([ls[0]]), ctx.arr([us[0]])),
                             M.NonlinearConstraint(spy(logB, "c1", lambda xs: Cn(1, xs)), ctx.arr([ls[1]]), ctx.arr([us[1]]))]
                pbA = self._build(ctx, n, x0, None, consA, spy(logA, "f", F), False, logA)
                pbB = self._build(ctx, n, x0, None, consB, spy(logB, "f", F), False, logB)
                mapB = lambda xb: xb
            else:   # scale (optionally with one more variable fixed by equal bounds, eliminated by hand in B)
                n = shape["n"]
                box = [(-1.0, 3.0), (0.5, 2.5)][:n]
                fac = [0.5 * (u - l) for l, u in box]
                sh = [0.5 * (u + l) for l, u in box]
                fx = [fin("fixval")] if shape.get("fixed") else []          # value of the fixed variable (last)
                x0 = [fin(f"x0{i}") for i in range(n)] + ([fin("x0f")] if fx else [])
                toX = lambda ys: [lift(ys[i]) * fac[i] + sh[i] if ctx.sym else ys[i] * fac[i] + sh[i] for i in range(n)] + fx
                consA, consB = [], []
                for r in range(shape["lin"]):
                    row = (grid[r % 2] + [0.75])[:n] + ([1.5 - r] if fx else [])
                    b = fin(f"b{r}")
                    eq = (r == 1)
                    consA.append(M.LinearConstraint(ctx.arr([row]), ctx.arr([b if eq else -INF]), ctx.arr([b])))
                    rowB = [row[i] * fac[i] for i in range(n)]
                    bB = b - sum(row[i] * sh[i] for i in range(n))
                    if fx:
                        bB = bB - row[n] * fx[0]
                    consB.append(M.LinearConstraint(ctx.arr([rowB]), ctx.arr([bB if eq else -INF]), ctx.arr([bB])))
                for j in range(shape["nl"]):
                    lj = fin(f"nl{j}")
                    consA.append(M.NonlinearConstraint(spy(logA, f"c{j}", lambda xs, j=j: Cn(j, xs)), ctx.arr([-INF]), ctx.arr([lj])))
                    consB.append(M.NonlinearConstraint(spy(logB, f"c{j}", lambda ys, j=j: Cn(j, toX(ys))), ctx.arr([-INF]), ctx.arr([lj])))
                x0B = [(lift(x0[i]) - sh[i]) / fac[i] if ctx.sym else (x0[i] - sh[i]) / fac[i] for i in range(n)]
                pbA = self._build(ctx, n + len(fx), x0, M.Bounds(ctx.arr([b_[0] for b_ in box] + fx), ctx.arr([b_[1] for b_ in box] + fx)), consA,
                                  spy(logA, "f", F), True, logA)
                pbB = self._build(ctx, n, x0B, M.Bounds(ctx.arr([-1.0] * n), ctx.arr([1.0] * n)), consB,
                                  spy(logB, "f", lambda ys: F(toX(ys))), False, logB)
                mapB = toX
            out["mapB"] = mapB

            def iface(pb):
                return dict(n=pb.n, x0=lst(pb.x0), xl=lst(pb.bounds.xl), xu=lst(pb.bounds.xu),
                            a_ub=rows(pb.linear.a_ub), b_ub=lst(pb.linear.b_ub), a_eq=rows(pb.linear.a_eq),
                            b_eq=lst(pb.linear.b_eq), is_feas=pb.is_feasibility)

            out["A"], out["B"] = iface(pbA), iface(pbB)
            if pbA.n != pbB.n:
                return out
            x = [fin(f"x{i}", -2e3, 2e3) for i in range(pbA.n)]
            for i in range(pbA.n):
                e.assume(pbA.bounds.xl[i] <= x[i])
                e.assume(pbA.bounds.xu[i] >= x[i])
            out["x"] = x
            for tag, pb, log in (("A", pbA, logA), ("B", pbB, logB)):
                log.clear()
                f, cub, ceq = pb(ctx.arr(x))
                xb, fb, vb = pb.best_eval(0.0)
                out["ev" + tag] = dict(f=f, cub=lst(cub), ceq=lst(ceq), maxcv=pb.maxcv(ctx.arr(x), cub, ceq),
                                       best=(lst(pb.build_x(xb)), fb, vb), type=pb.type,
                                       m=(pb.m_bounds, pb.m_linear_ub, pb.m_linear_eq, pb.m_nonlinear_ub, pb.m_nonlinear_eq),
                                       args=[(nm, xs) for nm, xs, v in log])
        except core.ReplayDiverged:
            raise
        except Exception as ex:
            import traceback
            out["exc"] = f"{type(ex).__name__}: {ex}"
            tb = traceback.extract_tb(ex.__traceback__)
            where = [fr for fr in tb if "/cobyqa/" in fr.filename]
            out["exc_where"] = f"{where[-1].filename.split('/cobyqa/')[-1]}:{where[-1].name}" if where else "harness"
        return out

    # ------------------------------------------------------------------
    def judge(self, ctx, shape, o):
        claims, goals = [], []
        sig = shape["pair"]

        def C(clause, cond, s=None):
            claims.append(Claim("C10", "eqv:" + clause, cond, sig=s or sig))

        C("both_statements_accepted", "exc" not in o, s=f"{sig}:{o.get('exc', '')[:50]}@{o.get('exc_where', '')}")
        if "exc" in o:
            return claims, ["exception"]
        goals.append("pair_" + shape["pair"].split("-")[0])
        A, B = o["A"], o["B"]
        C("same_number_of_variables", A["n"] == B["n"])
        if A["n"] != B["n"]:
            return claims, goals

        def same_list(u, v):
            return len(u) == len(v) and all_of(close(a, b, MARGIN) for a, b in zip(u, v))

        def same_rows(u, v):
            return len(u) == len(v) and all_of(same_list(a, b) for a, b in zip(u, v))

        C("same_initial_point", same_list(A["x0"], B["x0"]))
        C("same_bounds", b_and(same_list(A["xl"], B["xl"]), same_list(A["xu"], B["xu"])))
        C("same_linear_inequalities_row_by_row", b_and(same_rows(A["a_ub"], B["a_ub"]), same_list(A["b_ub"], B["b_ub"])))
        C("same_linear_equalities_row_by_row", b_and(same_rows(A["a_eq"], B["a_eq"]), same_list(A["b_eq"], B["b_eq"])))
        C("same_feasibility_flag", A["is_feas"] == B["is_feas"])
        if "evA" in o and "evB" in o:
            a, b = o["evA"], o["evB"]
            C("same_problem_type_and_counts", a["type"] == b["type"] and a["m"] == b["m"], s=f"{sig}:{a['m']}!={b['m']}" if a["m"] != b["m"] else sig)
            C("same_objective_value_handed_to_solver", close(a["f"], b["f"], MARGIN))
            C("same_constraint_values_handed_to_solver", b_and(same_list(a["cub"], b["cub"]), same_list(a["ceq"], b["ceq"])))
            C("same_violation", b_and(close(a["maxcv"], b["maxcv"], MARGIN), close(a["best"][2], b["best"][2], MARGIN)))
            C("same_returned_point_mapped_back", same_list(a["best"][0], o["mapB"](list(b["best"][0]))))
            # residual clause: the solver-side linear residuals equal those of the user's constraints (checked in H-PB / C17)
        return claims, goals

    def required_goals(self, tier, prop):
        return ["pair_fixed", "pair_bounds", "pair_dict", "pair_two", "pair_regroup", "pair_scale"]

    def digest(self, ctx, shape, o):
        if "exc" in o:
            return ["exc", o["exc"][:40]]
        # (values of the uninterpreted user functions are not comparable between the model and the native stand-in)
        return [o["A"]["n"], o["A"]["x0"], o["A"]["b_ub"], o["B"]["b_ub"], o["A"]["xl"], o["B"]["xu"]]


HARNESS = Eqv()
