"""H-OPT: options and constants (C19).

Real code run symbolically: main._set_default_constants, main._set_default_options,
and (end-to-end) main.minimize up to the first evaluation, for enumerated subsets
of supplied keys with *symbolic* supplied values.  The oracle is a table of
documented domains and relations transcribed from the minimize docstring and the
ValueError messages of the pinned main.py (trusted specification).
"""
import itertools
import math
import warnings

from sx import core
from sx.core import FIN, NAN, PINF, NINF, lift, b_and, b_or, b_not, b_implies
from sx.runner import Claim
from .base import Harness, isnan, isfin, all_of, any_of, same_value

# --- trusted specification ---------------------------------------------------
# key -> (low, low_strict, high, high_strict)   None = unbounded
CONST_DOMAIN = {
    "decrease_radius_factor": (0.0, True, 1.0, True),
    "increase_radius_factor": (1.0, True, None, None),
    "increase_radius_threshold": (1.0, True, None, None),
    "decrease_radius_threshold": (1.0, True, None, None),
    "decrease_resolution_factor": (0.0, True, 1.0, True),
    "large_resolution_threshold": (1.0, True, None, None),
    "moderate_resolution_threshold": (1.0, True, None, None),
    "low_ratio": (0.0, True, 1.0, True),
    "high_ratio": (0.0, True, 1.0, True),
    "very_low_ratio": (0.0, True, 1.0, True),
    "penalty_increase_threshold": (1.0, False, None, None),
    "penalty_increase_factor": (1.0, True, None, None),
    "short_step_threshold": (0.0, True, 1.0, True),
    "low_radius_factor": (0.0, True, 1.0, True),
    "byrd_omojokun_factor": (0.0, True, 1.0, True),
    "threshold_ratio_constraints": (1.0, True, None, None),
    "large_shift_factor": (0.0, False, None, None),
    "large_gradient_factor": (1.0, True, None, None),
    "resolution_factor": (1.0, True, None, None),
}
# (a, b, strict): a < b (strict) or a <= b
CONST_REL = [
    ("decrease_radius_threshold", "increase_radius_factor", True),
    ("moderate_resolution_threshold", "large_resolution_threshold", False),
    ("low_ratio", "high_ratio", False),
    ("penalty_increase_threshold", "penalty_increase_factor", False),
]
CONST_DEFAULT = {
    "decrease_radius_factor": 0.5, "increase_radius_factor": math.sqrt(2.0), "increase_radius_threshold": 2.0,
    "decrease_radius_threshold": 1.4, "decrease_resolution_factor": 0.1, "large_resolution_threshold": 250.0,
    "moderate_resolution_threshold": 16.0, "low_ratio": 0.1, "high_ratio": 0.7, "very_low_ratio": 0.01,
    "penalty_increase_threshold": 1.5, "penalty_increase_factor": 2.0, "short_step_threshold": 0.5,
    "low_radius_factor": 0.1, "byrd_omojokun_factor": 0.8, "threshold_ratio_constraints": 2.0,
    "large_shift_factor": 10.0, "large_gradient_factor": 10.0, "resolution_factor": 2.0,
}
PARTNER = {}
for _a, _b, _s in CONST_REL:
    PARTNER[_a] = _b
    PARTNER[_b] = _a
GROUPS = [list(r[:2]) for r in CONST_REL]
SINGLES = [k for k in CONST_DOMAIN if k not in PARTNER]

OPT_FLOAT_DEFAULT = {"radius_init": 1.0, "radius_final": 1e-6, "target": -math.inf,
                     "feasibility_tol": math.sqrt(2.0 ** -52)}
KINDS = (FIN,)


def in_domain(v, dom):
    lo, ls, hi, hs = dom
    v = lift(v)
    c = []
    if lo is not None:
        c.append(v > lo if ls else v >= lo)
    if hi is not None:
        c.append(v < hi if hs else v <= hi)
    return all_of(c)


def consts_valid(d, keys):
    c = [in_domain(d[k], CONST_DOMAIN[k]) for k in keys if k in CONST_DOMAIN]
    for a, b, strict in CONST_REL:
        if a in keys and b in keys:
            c.append(lift(d[a]) < d[b] if strict else lift(d[a]) <= d[b])
    return all_of(c)


def npt_max(n):
    return (n + 1) * (n + 2) // 2


class Opt(Harness):
    name = "opt"
    serves = ("C19",)
    functions = ("cobyqa/main.py:_set_default_constants", "cobyqa/main.py:_set_default_options",
                 "cobyqa/main.py:minimize", "cobyqa/models.py:Quadratic.__init__")
    stubs = ("end-to-end shapes: objective is the constant 0 and the callback stops the run at the first evaluation",)
    assumptions = ("supplied float values range over every finite double; integer-valued options range over an enumerated "
                   "boundary lattice; NaN and +-inf are excluded (the documented domains are real intervals)",
                   "specification table in harness/opt.py transcribed from the minimize docstring and ValueError messages")

    def shapes(self, tier, prop=None):
        out = []
        # constants: every subset of each coupled pair, each single key, nothing, everything
        out.append(dict(kind="constants", keys=[]))
        for g in GROUPS:
            for r in (1, 2):
                for sub in itertools.combinations(g, r):
                    out.append(dict(kind="constants", keys=list(sub)))
        for k in SINGLES:
            out.append(dict(kind="constants", keys=[k]))
        out.append(dict(kind="constants", keys=sorted(CONST_DOMAIN)))
        if tier == "thorough":
            for g1, g2 in itertools.combinations(GROUPS, 2):
                out.append(dict(kind="constants", keys=g1 + g2))
            for k1, k2 in itertools.combinations(SINGLES, 2):
                out.append(dict(kind="constants", keys=[k1, k2]))
        out.append(dict(kind="constants-unknown", keys=["decrease_radius_factor"]))
        out.append(dict(kind="constants-unknown", keys=[]))
        # options
        ns = (1, 2) if tier == "quick" else (1, 2, 3, 5)
        for n in ns:
            for sub in ([], ["radius_init"], ["radius_final"], ["radius_init", "radius_final"],
                        ["radius_init", "radius_final", "target", "feasibility_tol"]):
                out.append(dict(kind="options", n=n, keys=sub, ints={}))
            lattice = {"nb_points": [-1, 0, 1, n + 1, 2 * n + 1, npt_max(n), npt_max(n) + 1],
                       "maxfev": [-1, 0, 1, 3], "maxiter": [-2, 0, 1, 4]}
            for k, vals in lattice.items():
                for v in vals:
                    out.append(dict(kind="options", n=n, keys=["radius_init"], ints={k: v}))
            out.append(dict(kind="options", n=n, keys=[], ints={"nb_points": n + 1, "maxfev": 2}))
            out.append(dict(kind="options-unknown", n=n, keys=["radius_init"], ints={}))
        # end-to-end through minimize: early checks, nb_points below n+1, unknown names
        for n in ns[:2]:
            for k, vals in {"history_size": [-1, 0, 1, 3], "filter_size": [-1, 0, 1, 3],
                            "nb_points": [0, 1, n, n + 1, npt_max(n), npt_max(n) + 1],
                            "maxfev": [0, 1, 2], "maxiter": [0, 1]}.items():
                for v in vals:
                    out.append(dict(kind="minimize", n=n, opt={k: v}, sym=[]))
            out.append(dict(kind="minimize", n=n, opt={}, sym=["radius_init", "radius_final"]))
            out.append(dict(kind="minimize", n=n, opt={}, sym=["decrease_radius_factor"]))
            out.append(dict(kind="minimize-unknown", n=n, opt={"bogus_option": 1}, sym=[]))
            out.append(dict(kind="minimize-unknown", n=n, opt={}, sym=[], const={"bogus_constant": 2.0}))
        return out

    # ------------------------------------------------------------------
    def run(self, ctx, shape):
        e, M = ctx.e, ctx.M
        kind = shape["kind"]
        main = M.main
        if kind in ("constants", "constants-unknown"):
            kw = {k: e.fresh(k, KINDS) for k in shape["keys"]}
            call = dict(kw)
            if kind == "constants-unknown":
                call["not_a_constant"] = 3.0
            with warnings.catch_warnings(record=True) as w:
                warnings.simplefilter("always")
                try:
                    c = M.need(main, "_set_default_constants")(**call)
                    return dict(out="ok", kw=kw, c=c, warn=[str(x.category.__name__) for x in w])
                except ValueError as ex:
                    return dict(out="ValueError", kw=kw, msg=str(ex), warn=[])
        if kind in ("options", "options-unknown"):
            kw = {k: e.fresh(k, KINDS) for k in shape["keys"]}
            o = dict(kw)
            o.update(shape["ints"])
            if kind == "options-unknown":
                o["not_an_option"] = True
            supplied = dict(o)
            with warnings.catch_warnings(record=True) as w:
                warnings.simplefilter("always")
                try:
                    M.need(main, "_set_default_options")(o, shape["n"])
                    return dict(out="ok", kw=supplied, c=o, warn=[str(x.category.__name__) for x in w])
                except ValueError as ex:
                    return dict(out="ValueError", kw=supplied, msg=str(ex), warn=[])
        # end to end
        n = shape["n"]
        sym = {k: e.fresh(k, KINDS) for k in shape["sym"]}
        opts = dict(shape["opt"])
        consts = dict(shape.get("const", {}))
        for k, v in sym.items():
            (consts if k in CONST_DOMAIN else opts)[k] = v
        calls = {"n": 0}

        def fun(x):
            calls["n"] += 1
            return 0.0

        def cb(xk):
            raise StopIteration

        def go(o, c):
            with warnings.catch_warnings(record=True) as w:
                warnings.simplefilter("always")
                try:
                    res = main.minimize(fun, ctx.arr([0.0] * n), callback=cb, options=dict(o), **c)
                    return dict(out="ok", status=res.status, nfev=res.nfev, x=[xx for xx in res.x], fun=res.fun,
                                warn=[str(x.category.__name__) for x in w])
                except ValueError as ex:
                    return dict(out="ValueError", msg=str(ex), warn=[])
        r = go(opts, consts)
        r["sym"] = sym
        r["opts"] = opts
        if shape["kind"] == "minimize-unknown":
            clean_o = {k: v for k, v in opts.items() if k != "bogus_option"}
            r["ref"] = go(clean_o, {})
        return r

    # ------------------------------------------------------------------
    def judge(self, ctx, shape, o):
        claims, goals = [], []
        kind = shape["kind"]

        def C(clause, cond, sig=""):
            claims.append(Claim("C19", clause, cond, sig=sig))

        if kind in ("constants", "constants-unknown"):
            kw = o["kw"]
            keys = list(kw)
            valid = consts_valid(kw, keys)
            sig = "+".join(keys) or "none"
            if o["out"] == "ValueError":
                goals.append("constants_rejected")
                C("constants:ValueError_only_for_documented_violation", b_not(valid), sig)
            else:
                goals.append("constants_accepted")
                c = o["c"]
                C("constants:accepted_values_are_in_domain", valid, sig)
                C("constants:completed_settings_satisfy_domains_and_relations", consts_valid(c, list(CONST_DOMAIN)), sig)
                for k in CONST_DOMAIN:
                    if k in kw:
                        C("constants:supplied_value_kept", same_value(c[k], kw[k]), sig)
                    elif PARTNER.get(k) not in kw:
                        C("constants:default_when_unsupplied", same_value(c[k], CONST_DEFAULT[k]), f"{k}|{sig}")
                C("constants:improve_tcg_default", c.get("improve_tcg") is True, sig)
                if kind == "constants-unknown":
                    goals.append("unknown_constant")
                    C("constants:unknown_name_warns", "RuntimeWarning" in o["warn"], sig)
                else:
                    C("constants:no_warning_for_known_names", not o["warn"], sig)
            return claims, goals

        if kind in ("options", "options-unknown"):
            kw = o["kw"]
            n = shape["n"]
            sig = "+".join(sorted(str(k) for k in kw)) or "none"
            conds = []
            if "radius_init" in kw:
                conds.append(lift(kw["radius_init"]) > 0.0)
            if "radius_final" in kw:
                conds.append(lift(kw["radius_final"]) >= 0.0)
            if "radius_init" in kw and "radius_final" in kw:
                conds.append(lift(kw["radius_init"]) >= kw["radius_final"])
            if "nb_points" in kw:
                conds.append(n + 1 <= kw["nb_points"] <= npt_max(n))
            if "maxfev" in kw:
                conds.append(kw["maxfev"] > 0)
            if "maxiter" in kw:
                conds.append(kw["maxiter"] > 0)
            valid = all_of(conds)
            if o["out"] == "ValueError":
                goals.append("options_rejected")
                C("options:ValueError_only_for_documented_violation", b_not(valid), sig)
            else:
                goals.append("options_accepted")
                c = o["c"]
                C("options:accepted_values_are_in_domain", valid, sig)
                C("options:completed_radii_consistent",
                  b_and(lift(c["radius_init"]) > 0.0, lift(c["radius_final"]) >= 0.0,
                        lift(c["radius_final"]) <= c["radius_init"]), sig)
                for k in ("radius_init", "radius_final", "target", "feasibility_tol"):
                    if k in kw:
                        C("options:supplied_value_kept", same_value(c[k], kw[k]), sig)
                    elif k in ("target", "feasibility_tol") or \
                            ("radius_init" not in kw and "radius_final" not in kw):
                        C("options:default_when_unsupplied", same_value(c[k], OPT_FLOAT_DEFAULT[k]), f"{k}|{sig}")
                npt = kw.get("nb_points", 2 * n + 1)
                C("options:nb_points", c["nb_points"] == npt, sig)
                C("options:maxfev", c["maxfev"] == kw.get("maxfev", max(500 * n, npt + 1)), sig)
                C("options:maxiter", c["maxiter"] == kw.get("maxiter", 1000 * n), sig)
                import sys as _sys
                C("options:other_defaults", (c["disp"] is False and c["scale"] is False and c["store_history"] is False
                                             and c["debug"] is False and c["filter_size"] == _sys.maxsize
                                             and c["history_size"] == _sys.maxsize), sig)
                if kind == "options-unknown":
                    goals.append("unknown_option")
                    C("options:unknown_name_warns", "RuntimeWarning" in o["warn"], sig)
                else:
                    C("options:no_warning_for_known_names", not o["warn"], sig)
            return claims, goals

        # end to end
        n = shape["n"]
        opts = o["opts"]
        sym = o["sym"]
        sig = "+".join(sorted(list(shape["opt"]) + list(shape["sym"]) + list(shape.get("const", {})))) or "none"
        conds = []
        for k in ("history_size", "filter_size", "maxfev", "maxiter"):
            if k in opts:
                conds.append(opts[k] > 0)
        if "nb_points" in opts:
            conds.append(n + 1 <= opts["nb_points"] <= npt_max(n))
        if "radius_init" in sym:
            conds.append(lift(sym["radius_init"]) > 0.0)
        if "radius_final" in sym:
            conds.append(lift(sym["radius_final"]) >= 0.0)
        if "radius_init" in sym and "radius_final" in sym:
            conds.append(lift(sym["radius_init"]) >= sym["radius_final"])
        for k in sym:
            if k in CONST_DOMAIN:
                conds.append(in_domain(sym[k], CONST_DOMAIN[k]))
        valid = all_of(conds)
        if o["out"] == "ValueError":
            goals.append("minimize_rejected")
            C("minimize:ValueError_only_for_documented_violation", b_not(valid), sig)
        else:
            goals.append("minimize_accepted")
            C("minimize:accepted_values_are_in_domain", valid, sig)
            if kind == "minimize-unknown":
                goals.append("minimize_unknown_name")
                ref = o["ref"]
                C("minimize:unknown_name_warns", "RuntimeWarning" in o["warn"], sig)
                C("minimize:unknown_name_does_not_alter_run",
                  b_and(ref["out"] == "ok", o["status"] == ref.get("status"), o["nfev"] == ref.get("nfev"),
                        same_value(o["fun"], ref.get("fun", math.nan)),
                        all_of(same_value(a, b) for a, b in zip(o["x"], ref.get("x", [])))), sig)
            else:
                C("minimize:no_warning_for_known_names", not o["warn"], sig)
        return claims, goals

    def required_goals(self, tier, prop):
        return ["constants_rejected", "constants_accepted", "unknown_constant", "options_rejected",
                "options_accepted", "unknown_option", "minimize_rejected", "minimize_accepted",
                "minimize_unknown_name"]

    def digest(self, ctx, shape, o):
        d = [o["out"], sorted(o.get("warn", []))]
        if o["out"] == "ok" and "c" in o:
            c = o["c"]
            d.append([c[k] for k in sorted(c) if isinstance(c[k], (int, float, core.SymFloat)) and not isinstance(c[k], bool)])
        if "status" in o:
            d += [o["status"], o["nfev"]]
        return d


HARNESS = Opt()
