"""H-TR: trust-region bookkeeping (C18) as single inductive steps from an
arbitrary state that satisfies the invariant.

Real code run symbolically: TrustRegion.radius (setter), update_radius,
enhance_resolution, the short-step radius reduction of minimize (through the
setter), set_best_index / merit (with a real Problem), get_index_to_remove,
increase_penalty, decrease_penalty, _get_low_penalty.
"""
import math
import sys

import numpy as _np
import z3

from sx import core, symnp
from sx.core import FIN, NAN, PINF, NINF, lift, b_and, b_or, b_not, b_implies, SymFloat
from sx.runner import Claim
from .base import Harness, isnan, isfin, all_of, any_of, same_value, close
from .opt import CONST_DOMAIN, CONST_REL, CONST_DEFAULT, in_domain, consts_valid

INF = math.inf
EPS = 2.0 ** -52


class Tr(Harness):
    name = "tr"
    serves = ("C18",)
    functions = ("cobyqa/framework.py:TrustRegion.radius", "cobyqa/framework.py:TrustRegion.update_radius",
                 "cobyqa/framework.py:TrustRegion.enhance_resolution", "cobyqa/framework.py:TrustRegion.set_best_index",
                 "cobyqa/framework.py:TrustRegion.merit", "cobyqa/framework.py:TrustRegion.get_index_to_remove",
                 "cobyqa/framework.py:TrustRegion.increase_penalty", "cobyqa/framework.py:TrustRegion.decrease_penalty",
                 "cobyqa/framework.py:TrustRegion._get_low_penalty")
    stubs = ("Models: a plain object carrying symbolic fun_val / cub_val / interpolation points; determinants returns arbitrary finite values",
             "model gradients / Hessian products: zero; model constraint values: arbitrary finite numbers; multipliers: arbitrary finite numbers")
    assumptions = ("state before each rule satisfies 0 <= radius_final <= resolution <= radius (induction hypothesis), magnitudes within 1e-12 .. 1e12",
                   "'symconst' shapes: every radius-management constant ranges over its whole documented domain (relations included)")

    def engine_opts(self, shape):
        return dict(nlsat=shape.get("nlsat", True), timeout_ms=20000, merge=False)

    def shapes(self, tier, prop=None):
        S = []
        for rule in ("update", "enhance", "short"):
            S.append(dict(kind="rule", rule=rule, consts="default"))
            S.append(dict(kind="rule", rule=rule, consts="sym"))
        for npt in (2, 3):
            for pen in (0.0, 1.0):
                S.append(dict(kind="best", npt=npt, pen=pen, nlsat=False))
        if tier == "thorough":
            S.append(dict(kind="best", npt=4, pen=2.5, nlsat=False))
        S.append(dict(kind="remove", npt=3, nlsat=False))
        S.append(dict(kind="remove-geo", npt=3, nlsat=False))
        S.append(dict(kind="penalty-inc", nlsat=False, npt=2))
        S.append(dict(kind="penalty-dec", nlsat=False, npt=2))
        if tier == "thorough":
            S.append(dict(kind="penalty-inc", nlsat=False, npt=3))
            S.append(dict(kind="penalty-dec", nlsat=False, npt=3))
        return S

    # ------------------------------------------------------------------
    def _constants(self, ctx, shape):
        e, M = ctx.e, ctx.M
        c = M.main._set_default_constants()
        if shape.get("consts") == "sym":
            keys = ["decrease_radius_factor", "increase_radius_factor", "increase_radius_threshold",
                    "decrease_radius_threshold", "decrease_resolution_factor", "large_resolution_threshold",
                    "moderate_resolution_threshold", "low_ratio", "high_ratio"]
            if shape["rule"] == "update":
                keys = [k for k in keys if "resolution" not in k or k == "decrease_resolution_factor"]
            elif shape["rule"] == "enhance":
                keys = ["decrease_radius_factor", "decrease_resolution_factor", "large_resolution_threshold",
                        "moderate_resolution_threshold"]
            else:
                keys = ["decrease_resolution_factor", "decrease_radius_threshold"]
            for k in keys:
                c[k] = e.fresh_in(k, 1e-6, 1e6)
            e.assume(consts_valid(c, [k for k in c if k in CONST_DOMAIN]))
        return c

    def run(self, ctx, shape):
        e, M, np = ctx.e, ctx.M, ctx.np
        FW = M.framework
        kind = shape["kind"]
        TR = M.need(FW, "TrustRegion")
        tr = object.__new__(TR)
        out = dict(shape=shape)
        if kind == "rule":
            c = self._constants(ctx, shape)
            tr._constants = c
            rad = e.fresh_in("radius", 1e-12, 1e12)
            res = e.fresh_in("resolution", 1e-12, 1e12)
            rend = e.fresh_in("radius_final", 0.0, 1e12)
            e.assume(rend <= res)
            e.assume(res <= rad)
            tr._radius, tr._resolution = rad, res
            opts = {"radius_final": rend}
            out.update(c=c, rad0=rad, res0=res, rend=rend)
            if shape["rule"] == "update":
                ratio = e.fresh_in("ratio", -1e6, 1e6)
                s = e.fresh_in("snorm", 0.0, 1e12)
                tr.update_radius(ctx.arr([s]), ratio)
            elif shape["rule"] == "enhance":
                e.assume(res > rend)             # minimize calls it only then
                tr.enhance_resolution(opts)
            else:
                tr.radius *= c["decrease_resolution_factor"]
            out.update(rad1=tr._radius, res1=tr._resolution)
            return out
        # ---- a real Problem with one nonlinear inequality (so that merit/maxcv are the real ones)
        P = M.problem
        nvals = {"v": 0.0}

        def con(x):
            return ctx.arr([0.0])

        obj = P.ObjectiveFunction(lambda x: 0.0, False, False)
        bounds = P.BoundConstraints(M.Bounds(ctx.arr([-INF]), ctx.arr([INF])))
        lin = P.LinearConstraints([], 1, False)
        nl = P.NonlinearConstraints([M.NonlinearConstraint(con, ctx.arr([-INF]), ctx.arr([0.0]))], False, False)
        pb = P.Problem(obj, ctx.arr([0.0]), bounds, lin, nl, None, 2.0 ** -20, False, False, 1, sys.maxsize, False)
        pb(ctx.arr([0.0]))
        npt = shape.get("npt", 3)

        class Interp:
            pass

        class Mod:
            pass

        it = Interp()
        it.x_base = ctx.arr([0.0])
        it.xpt = ctx.arr([[float(k) * 0.5 for k in range(npt)]])
        it.point = lambda k: it.x_base + it.xpt[:, k]
        it.n, it.npt = 1, npt
        md = Mod()
        md.interpolation = it
        md.n, md.npt = 1, npt
        md.fun_val = ctx.arr([e.fresh_in(f"f{k}", -1e3, 1e3) for k in range(npt)])
        md.cub_val = ctx.arr([[e.fresh_in(f"c{k}", -1e3, 1e3)] for k in range(npt)])
        md.ceq_val = ctx.arr([[] for k in range(npt)])
        tr._pb = pb
        tr._models = md
        tr._constants = M.main._set_default_constants()
        tr._radius = 1.0
        tr._resolution = 0.5
        out.update(md=md)
        if kind == "best":
            tr._penalty = shape["pen"]
            tr._best_index = e.choose(npt, "best0")
            tr.set_best_index()
            out.update(best=tr._best_index, pen=shape["pen"])
        elif kind in ("remove", "remove-geo"):
            tr._penalty = 0.0
            tr._best_index = e.choose(npt, "best0")
            sig = [e.fresh_in(f"s{k}", -1e3, 1e3) for k in range(npt)]
            md.determinants = lambda x_new, k_new=None: ctx.arr(sig)
            if kind == "remove":
                k, d = tr.get_index_to_remove(ctx.arr([0.25]))
            else:
                k, d = tr.get_index_to_remove()
            out.update(best=tr._best_index, k=int(k), dist=d, sig=sig)
        elif kind == "penalty-inc":
            tr._penalty = e.fresh_in("pen", 0.0, 1e6)
            tr._best_index = 0
            lm = [e.fresh_in("lm", -1e3, 1e3)]
            tr._lm_linear_ub = ctx.arr([])
            tr._lm_linear_eq = ctx.arr([])
            tr._lm_nonlinear_ub = ctx.arr(lm)
            tr._lm_nonlinear_eq = ctx.arr([])
            mv = e.fresh_in("mcub", -1e3, 1e3)
            md.cub = lambda x, mask=None: ctx.arr([mv])
            md.ceq = lambda x, mask=None: ctx.arr([])
            md.cub_grad = lambda x, mask=None: ctx.arr([[1.0]])
            md.ceq_grad = lambda x, mask=None: ctx.arr([[]]).reshape(0, 1)
            gf = 0.5
            md.fun_grad = lambda x: ctx.arr([gf])
            md.fun_hess_prod = lambda v: ctx.arr([0.0])
            md.cub_hess_prod = lambda v, mask=None: ctx.arr([[0.0]])
            md.ceq_hess_prod = lambda v, mask=None: ctx.arr([[]]).reshape(0, 1)
            step = ctx.arr([e.fresh_in("step", -1.0, 1.0)])
            same = tr.increase_penalty(step)
            out.update(pen0=None, pen1=tr._penalty, same=same)
        elif kind == "penalty-dec":
            tr._penalty = e.fresh_in("pen", 0.0, 1e6)
            tr._best_index = 0
            tr.decrease_penalty()
            out.update(pen1=tr._penalty)
        return out

    # ------------------------------------------------------------------
    def judge(self, ctx, shape, o):
        claims, goals = [], []
        kind = shape["kind"]
        sig = kind + ":" + str(shape.get("rule", shape.get("npt", ""))) + ":" + str(shape.get("consts", ""))

        def C(clause, cond, s=None):
            claims.append(Claim("C18", "tr:" + clause, cond, sig=s or sig))

        if kind == "rule":
            rad1, res1, rend, res0 = lift(o["rad1"]), lift(o["res1"]), lift(o["rend"]), lift(o["res0"])
            C("radius_final_le_resolution_le_radius", b_and(rend <= res1, res1 <= rad1))
            C("resolution_never_increases", res1 <= res0)
            goals.append("rule_" + shape["rule"])
            if shape["rule"] == "enhance":
                c = o["c"]
                # either the final value is reached or the resolution shrinks by a fixed factor < 1:
                # regime 1: factor decrease_resolution_factor; regime 2: res1^2 = res0*rend with res0 > moderate*rend
                f1 = lift(c["decrease_resolution_factor"])
                mod = lift(c["moderate_resolution_threshold"])
                C("enhance_reaches_final_or_shrinks_by_regime_factor",
                  b_or(res1 == rend, res1 <= f1 * res0, b_and(res1 * res1 * mod <= res0 * res0, res1 < res0)))
                C("enhance_strictly_decreases", res1 < res0)
            else:
                C("resolution_unchanged_by_radius_rules", res1 == res0)
            return claims, goals
        md = o["md"]
        npt = shape.get("npt", 3)
        f = [lift(v) for v in md.fun_val]
        c = [lift(row[0]) for row in md.cub_val]
        if kind == "best":
            pen = o["pen"]
            viol = [symnp.max2(ci, 0.0) for ci in c]
            merit = [f[k] + pen * lift(viol[k]) for k in range(npt)]
            b = o["best"]
            goals.append("best_index")
            # tolerance of the code: 10 eps max(n, npt) max(|m_best|, 1) per tie hand-over; at most npt hand-overs
            amax = lift(1.0)
            for k in range(npt):
                amax = symnp.max2(amax, abs(merit[k]))
            tol = 10.0 * EPS * npt * npt * amax
            C("centre_has_least_merit_up_to_rounding", all_of(merit[b] <= merit[k] + tol for k in range(npt)))
            ismin = all_of(merit[b] <= merit[j] for j in range(npt))
            tie = all_of(b_implies(b_and(merit[k] == merit[b], ismin), lift(viol[b]) <= viol[k]) for k in range(npt))
            # no third point whose merit lies strictly inside the rounding band above the minimum
            band = 1e-9 * amax
            clean = all_of(b_or(merit[j] <= merit[b], merit[j] >= merit[b] + band) for j in range(npt))
            C("exact_merit_tie_goes_to_smaller_violation", b_implies(clean, tie))
            C("exact_merit_tie_goes_to_smaller_violation_even_with_near_ties", tie)
        elif kind in ("remove", "remove-geo"):
            b, k = o["best"], o["k"]
            goals.append("index_to_remove")
            if kind == "remove":
                some = any_of(lift(s) != 0.0 for j, s in enumerate(o["sig"]) if j != b)
                C("centre_never_chosen_for_replacement", b_implies(some, k != b))
            else:
                C("centre_never_chosen_for_replacement_geometry", b_implies(lift(o["dist"]) > 0.0, k != b))
        else:
            goals.append("penalty")
            p1 = lift(o["pen1"])
            C("penalty_finite_nonnegative", b_and(isfin(p1), p1 >= 0.0) if isfin(p1) else False)
        return claims, goals

    def required_goals(self, tier, prop):
        return ["rule_update", "rule_enhance", "rule_short", "best_index", "index_to_remove", "penalty"]

    def digest(self, ctx, shape, o):
        if shape["kind"] == "rule":
            return [o["rad1"], o["res1"]]
        if shape["kind"] == "best":
            return [o["best"]]
        if shape["kind"] in ("remove", "remove-geo"):
            return [o["k"]]
        return [o["pen1"]]


HARNESS = Tr()
