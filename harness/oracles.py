"""Oracles shared by several harnesses, written from the property statements
(never from cobyqa's own helpers).  All functions work on SymFloat / float mixes
and return SymBool / bool conditions."""
import math

from sx.core import FIN, NAN, PINF, NINF, lift, b_and, b_or, b_not, b_implies, SymFloat
from sx import symnp
from .base import isnan, isfin, all_of, any_of, same_value, close


def vmax(vals):
    """max with numpy semantics (NaN propagates) over floats / SymFloats."""
    r = vals[0]
    for v in vals[1:]:
        r = symnp.max2(r, v)
    return r


def interval_excess(val, lb, ub):
    """Largest amount by which `val` leaves [lb, ub]; NaN limits mean no limit."""
    out = []
    conc = isinstance(val, (int, float)) and isinstance(lb, (int, float)) and isinstance(ub, (int, float))
    if not (isinstance(lb, float) and (math.isnan(lb) or lb == -math.inf)):
        # concrete geometry: the same double arithmetic as the code (exact rationals of the doubles would
        # differ from it in the last bit and flip exact merit ties)
        out.append(float(lb) - float(val) if conc else lift(lb) - val)
    if not (isinstance(ub, float) and (math.isnan(ub) or ub == math.inf)):
        out.append(float(val) - float(ub) if conc else lift(val) - ub)
    return out


def selection_rules(C, fs, vs, pen, tol, r, S, tag="", margin=0.0):
    """C03: the selection rule of the statement applied to the index set S.
    C(clause, cond) registers one assertion."""
    feas = {i: b_and(vs[i] <= tol, not isnan(fs[i])) for i in S}
    anyfeas = any_of(feas.values())
    C(f"{tag}feasible_first_min_objective",
      b_implies(anyfeas, b_and(r in S and feas.get(r, False),
                               all_of(b_implies(feas[i], fs[r] <= fs[i]) for i in S) if r in S else False)))
    if r in S:
        C(f"{tag}feasible_tie_least_violation",
          b_implies(anyfeas, all_of(b_implies(b_and(feas[i], fs[i] == fs[r]), vs[r] <= vs[i]) for i in S)))
    # "otherwise": no evaluated point is feasible with a defined objective (a feasible point whose objective is NaN
    # does not count - NaN is never preferred to a defined value)
    nofeas = b_not(anyfeas)
    D = [i for i in S if not isnan(fs[i]) and isfin(vs[i])]
    if D:
        merit = {i: fs[i] + pen * vs[i] for i in D}
        rin = r in D
        def slack(m):
            # rounding margin of the end-to-end check (finite merit values only; 0 * inf would be NaN)
            if margin == 0.0 or not isfin(m):
                return m
            return m + margin * (1.0 + abs(m))
        C(f"{tag}least_merit",
          b_implies(nofeas, b_and(rin, all_of(merit[r] <= slack(merit[i]) for i in D) if rin else False)))
        if rin and margin == 0.0:
            # (exact merit ties are only meaningful where the code's arithmetic is exact too: H-FILT)
            C(f"{tag}merit_tie_least_violation_then_objective",
              b_implies(nofeas, all_of(
                  b_implies(merit[i] == merit[r],
                            b_and(vs[r] <= vs[i], b_implies(vs[i] == vs[r], fs[r] <= fs[i])))
                  for i in D)))
        if rin:
            C(f"{tag}not_dominated",
              b_implies(nofeas, all_of(
                  b_not(b_and(fs[i] <= fs[r], vs[i] <= vs[r], b_or(fs[i] < fs[r], vs[i] < vs[r])))
                  for i in D)))
    if r in S:
        if all(isnan(vs[i]) for i in S) and any(not isnan(fs[i]) for i in S):
            C(f"{tag}nan_violation_everywhere_least_objective",
              b_and(not isnan(fs[r]), all_of(fs[r] <= fs[i] for i in S if not isnan(fs[i]))))
        if all(isnan(fs[i]) for i in S) and any(not isnan(vs[i]) for i in S):
            C(f"{tag}nan_objective_everywhere_least_violation",
              b_and(not isnan(vs[r]), all_of(vs[r] <= vs[i] for i in S if not isnan(vs[i]))))
