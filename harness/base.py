"""Harness base class and small helpers shared by all harnesses."""
import math

import z3

from sx import core
from sx.core import SymFloat, SymBool, lift, b_and, b_or, b_not, b_implies, FIN, NAN, PINF, NINF
from sx.runner import Claim

INF = math.inf


class Harness:
    name = "?"
    serves = ()

    def engine_opts(self, shape):
        return {}

    def shapes(self, tier, prop=None):
        raise NotImplementedError

    def prepare(self, ctx, shape):
        """Install stubs on ctx.M (restored by the runner)."""

    def run(self, ctx, shape):
        raise NotImplementedError

    def judge(self, ctx, shape, obs):
        """-> (claims, goals reached on this path)"""
        raise NotImplementedError

    def digest(self, ctx, shape, obs):
        """Observable summary compared between the symbolic path (under its
        model) and the native replay; None = nothing to compare."""
        return None

    # metadata for evidence / manifest
    functions = ()        # repo functions this harness drives (entry points)
    stubs = ()            # what is replaced by a nondeterministic stub
    assumptions = ()
    bounds = {}


def L(x):
    return lift(x)


def isnan(x):
    x = lift(x)
    return x.k == NAN


def isfin(x):
    x = lift(x)
    return x.k == FIN


def kindname(x):
    return core.KIND_NAMES[lift(x).k]


def all_of(xs):
    xs = list(xs)
    if not xs:
        return True
    return b_and(*xs)


def any_of(xs):
    xs = list(xs)
    if not xs:
        return False
    return b_or(*xs)


def close(a, b, tol):
    """|a-b| <= tol for finite a, b; identical kinds otherwise."""
    a, b = lift(a), lift(b)
    if a.k != FIN or b.k != FIN:
        return a.k == b.k
    d = a - b
    return b_and(d <= tol, d >= -tol)


def same_value(a, b):
    """Identity of two IEEE values (NaN equals NaN)."""
    a, b = lift(a), lift(b)
    if a.k != FIN or b.k != FIN:
        return a.k == b.k
    return a == b
