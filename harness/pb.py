"""H-PB: the problem-statement layer with symbolic geometry.

Real code run symbolically: main._get_bounds, main._get_constraints,
BoundConstraints, LinearConstraints, NonlinearConstraints, Problem.__init__,
Problem.__call__, build_x, maxcv, violation, best_eval, main._build_result.
Symbolic: the user's bounds, x0, the internal point handed to Problem.__call__,
all constraint limits (over the kinds -inf / finite / equal / +inf / NaN), and
every value the user functions return (fresh per call).  Coefficient matrices
are concrete in the families where the point is symbolic and symbolic (incl.
NaN) where the point is concrete, so that every query stays linear.
"""
import itertools
import math
import sys

import numpy as _np

from sx import core, symnp
from sx.core import FIN, NAN, PINF, NINF, lift, b_and, b_or, b_not, b_implies, SymFloat
from sx.runner import Claim
from .base import Harness, isnan, isfin, all_of, any_of, same_value, close, kindname
from .oracles import vmax

INF = math.inf
MARGIN = 1e-7       # margin on arithmetic comparisons (values are O(1e3) at most)
GAP = 1e-3          # finite bound intervals are either exactly degenerate or wider than this


def sym_excess(val, lb, ub):
    """amounts by which val leaves [lb, ub] (limits may be SymFloat of any kind; NaN = no limit)"""
    out = []
    lb, ub = lift(lb), lift(ub)
    if lb.k == FIN or lb.k == PINF:
        out.append(lb - val)
    if ub.k == FIN or ub.k == NINF:
        out.append(lift(val) - ub)
    return out


class Pb(Harness):
    name = "pb"
    serves = ("C01", "C02", "C06", "C17")
    functions = ("cobyqa/main.py:_get_bounds", "cobyqa/main.py:_get_constraints",
                 "cobyqa/problem.py:BoundConstraints.__init__", "cobyqa/problem.py:LinearConstraints.__init__",
                 "cobyqa/problem.py:NonlinearConstraints.__call__", "cobyqa/problem.py:Problem.__init__",
                 "cobyqa/problem.py:Problem.__call__", "cobyqa/problem.py:Problem.build_x",
                 "cobyqa/problem.py:Problem.maxcv", "cobyqa/problem.py:Problem.violation",
                 "cobyqa/problem.py:Problem.best_eval", "cobyqa/utils/math.py:get_arrays_tol")
    stubs = ("user objective / constraint functions return a fresh symbolic double at every call (logged with their argument)",)
    assumptions = ("finite bounds and limits have magnitude <= 1e3; a two-sided bound interval is either exactly degenerate (lb == ub) "
                   "or wider than 1e-3; a two-sided constraint limit pair is either exactly equal or further apart than 1e-3 "
                   "(the equality tolerance itself, about 1e-12 here, lies between and is exercised by the 'tolgap' shapes)",
                   "C02/C17 value claims: the internal point lies inside the internal box (guaranteed by C01b); C01/C06 claims: any internal point",
                   "value comparisons use a margin of 1e-7")

    def engine_opts(self, shape):
        if shape["fam"] == "F":
            # terms are kept exactly as the code built them so that they can be re-decided in binary64
            return dict(timeout_ms=8000, simplify=False, fp_timeout_ms=120000, task_paths=20, first_task_paths=6)
        return dict(timeout_ms=8000)

    # ------------------------------------------------------------------
    def shapes(self, tier, prop=None):
        S = []
        pats1 = ["free", "lower", "upper", "two", "fixed"]
        # family A: symbolic bounds (unscaled), concrete A, symbolic point and limits
        for p in pats1:
            S.append(dict(fam="A", n=1, pat=[p], scale=False, lin=0, nl=1, inside=True))
            S.append(dict(fam="A", n=1, pat=[p], scale=False, lin=1, nl=0, inside=False))
        for pp in (["two", "fixed"], ["fixed", "lower"], ["free", "two"], ["fixed", "fixed"], ["upper", "fixed"]):
            S.append(dict(fam="A", n=2, pat=pp, scale=False, lin=1, nl=1, inside=True))
        # family B: concrete finite bounds, scale on, concrete A, symbolic point and limits
        S.append(dict(fam="B", n=1, pat=["two"], scale=True, lin=1, nl=1, inside=True))
        S.append(dict(fam="B", n=2, pat=["two", "fixed"], scale=True, lin=1, nl=1, inside=True))
        S.append(dict(fam="B", n=2, pat=["two", "two"], scale=True, lin=1, nl=1, inside=False))
        # family C: concrete point, symbolic coefficients (incl. NaN) and limits
        S.append(dict(fam="C", n=2, pat=["free", "free"], scale=False, lin=1, nl=0, inside=True))
        S.append(dict(fam="C", n=2, pat=["two", "fixed"], scale=False, lin=1, nl=0, inside=True))
        # family F: bit-precise (binary64) re-check of "inside the bounds exactly" for the point handed to the user
        if prop in (None, "C01"):
            for p in (["two"], ["lower"], ["fixed"]):
                S.append(dict(fam="F", n=1, pat=p, scale=False, lin=0, nl=0, inside=False))
            S.append(dict(fam="F", n=1, pat=["two"], scale=True, lin=0, nl=0, inside=False))
            if tier == "thorough":
                S.append(dict(fam="F", n=2, pat=["two", "fixed"], scale=True, lin=0, nl=0, inside=False))
                S.append(dict(fam="F", n=2, pat=["two", "two"], scale=True, lin=0, nl=0, inside=True))
        # vector-valued nonlinear constraints and several objects, mixed limit patterns in one object
        S.append(dict(fam="A", n=1, pat=["free"], scale=False, lin=0, nl=2, inside=True))
        S.append(dict(fam="A", n=1, pat=["free"], scale=False, lin=0, nl=1, m=2, inside=True))
        S.append(dict(fam="A", n=1, pat=["free"], scale=False, lin=1, m=2, nl=0, inside=True))
        S.append(dict(fam="A", n=1, pat=["free"], scale=False, lin=0, nl=1, inside=True, tolgap=True))
        S.append(dict(fam="A", n=1, pat=["free"], scale=False, lin=1, nl=0, inside=True, tolgap=True))
        if tier == "thorough":
            for pp in itertools.product(pats1, repeat=2):
                S.append(dict(fam="A", n=2, pat=list(pp), scale=False, lin=1, nl=1, inside=True))
            S.append(dict(fam="A", n=1, pat=["two"], scale=False, lin=2, nl=2, m=2, inside=True))
            S.append(dict(fam="B", n=2, pat=["two", "two"], scale=True, lin=2, nl=1, m=2, inside=True))
            S.append(dict(fam="C", n=2, pat=["free", "free"], scale=False, lin=2, nl=0, inside=True))
            S.append(dict(fam="A", n=2, pat=["free", "free"], scale=False, lin=0, nl=1, m=3, inside=True))
        if prop == "C17":
            S = [s for s in S if (s["lin"] or s["nl"]) and s["fam"] != "F"]
        if prop == "C06":
            S = [s for s in S if (s["nl"] or s["fam"] == "B") and s["fam"] != "F"]
        if prop == "C01":
            # the two-variable shapes with constraints are about C02/C17; one of them is enough here
            keep2 = [s_ for s_ in S if s_["n"] == 2 and s_["fam"] == "A"][:1]
            S = [s_ for s_ in S if not (s_["n"] == 2 and s_["fam"] == "A")] + keep2
        if prop == "C02":
            S = [s for s in S if s["fam"] != "F"]
        return S

    # ------------------------------------------------------------------
    def run(self, ctx, shape):
        e, M, np = ctx.e, ctx.M, ctx.np
        n = shape["n"]
        fam = shape["fam"]
        m = shape.get("m", 1)
        log = []

        def lim_pair(name):
            """(lb, ub) of one constraint component over the patterns of the statement"""
            k = e.choose(7, "limpat")
            # 0: (-inf, fin) 1: (fin, +inf) 2: (fin, fin) two-sided 3: equal 4: (-inf, +inf) 5: NaN in lb 6: NaN in ub
            if shape.get("tolgap"):
                k = 2
            fin = lambda s: e.fresh_in(s, -1e3, 1e3)
            if k == 0:
                return -INF, fin(name + "u")
            if k == 1:
                return fin(name + "l"), INF
            if k == 2:
                l, u = fin(name + "l"), fin(name + "u")
                if shape.get("tolgap"):
                    e.assume(l <= u)          # any gap, including inside the equality tolerance
                    e.assume(u - l <= 1e-3)
                else:
                    e.assume(u - l >= GAP)
                return l, u
            if k == 3:
                l = fin(name + "e")
                return l, l
            if k == 4:
                return -INF, INF
            if k == 5:
                return math.nan, fin(name + "u")
            return fin(name + "l"), math.nan

        # ---- the user's statement -------------------------------------------
        lbs, ubs = [], []
        for i, p in enumerate(shape["pat"]):
            if fam == "B":
                lo, hi = [(-1.0, 3.0), (0.5, 2.5)][i]
                if p == "fixed":
                    hi = lo
                lbs.append(lo)
                ubs.append(hi)
                continue
            if p == "free":
                lbs.append(-INF)
                ubs.append(INF)
            elif p == "lower":
                lbs.append(e.fresh_in(f"lb{i}", -1e3, 1e3))
                ubs.append(INF)
            elif p == "upper":
                lbs.append(-INF)
                ubs.append(e.fresh_in(f"ub{i}", -1e3, 1e3))
            elif p == "two":
                l = e.fresh_in(f"lb{i}", -1e3, 1e3)
                u = e.fresh_in(f"ub{i}", -1e3, 1e3)
                e.assume(u - l >= GAP)
                lbs.append(l)
                ubs.append(u)
            else:
                l = e.fresh_in(f"fx{i}", -1e3, 1e3)
                lbs.append(l)
                ubs.append(l)
        if fam == "C":
            x0 = [0.5, -1.25][:n]
        else:
            x0 = [e.fresh_in(f"x0{i}", -1e3, 1e3) for i in range(n)]
        arr_bounds = e.choose(2, "bounds-form") == 1        # Bounds object or (n, 2) array-like
        if all(p == "free" for p in shape["pat"]) and e.choose(2, "bounds-none") == 1:
            bounds_arg = None
        elif arr_bounds:
            bounds_arg = [[lbs[i], ubs[i]] for i in range(n)]
            if ctx.sym:
                bounds_arg = _np.array(bounds_arg, dtype=object)
        else:
            bounds_arg = M.Bounds(ctx.arr(lbs), ctx.arr(ubs))
        grid = [[1.0, -2.0], [0.0, 0.5], [3.0, 1.0], [-1.0, 0.0]]
        lin_user = []
        cons = []
        for q in range(shape["lin"]):
            rows = []
            for r in range(m):
                if fam == "C":
                    rows.append([e.fresh_in(f"a{q}{r}{i}", -1e3, 1e3, kinds=(FIN, NAN)) for i in range(n)])
                else:
                    rows.append(grid[(2 * q + r) % 4][:n])
            lims = [lim_pair(f"L{q}{r}") for r in range(m)]
            lb = [l for l, u in lims]
            ub = [u for l, u in lims]
            lin_user.append((rows, lb, ub))
            if m == 1 and e.choose(2, "scalar-limits") == 1:
                cons.append(M.LinearConstraint(ctx.arr(rows), lb[0], ub[0]))       # scalar, broadcast
            else:
                cons.append(M.LinearConstraint(ctx.arr(rows), ctx.arr(lb), ctx.arr(ub)))
        nl_user = []

        def mkcon(j, mm):
            def con(x):
                vals = [e.fresh_in(f"c{j}", -1e3, 1e3) for _ in range(mm)]
                log.append(dict(t="con", j=j, x=list(_np.asarray(x, dtype=object).ravel()), v=vals))
                return ctx.arr(vals) if mm > 1 else (vals[0] if e.choose(2, "scalar-valued") == 1 else ctx.arr(vals))
            return con

        for j in range(shape["nl"]):
            lims = [lim_pair(f"N{j}{r}") for r in range(m)]
            lb = [l for l, u in lims]
            ub = [u for l, u in lims]
            nl_user.append((m, lb, ub))
            cons.append(M.NonlinearConstraint(mkcon(j, m), ctx.arr(lb), ctx.arr(ub)))

        def fun(x):
            v = e.fresh_in("f", -1e3, 1e3)
            log.append(dict(t="fun", x=list(_np.asarray(x, dtype=object).ravel()), v=v))
            return v

        # ---- the real construction path of minimize -----------------------------
        main, P = M.main, M.problem
        out = dict(log=log, lbs=lbs, ubs=ubs, lin_user=lin_user, nl_user=nl_user, shape=shape)
        try:
            obj = P.ObjectiveFunction(fun, False, False)
            bnds = P.BoundConstraints(main._get_bounds(bounds_arg, n))
            lcs, ncs = main._get_constraints(cons)
            linear = P.LinearConstraints(lcs, n, False)
            nonlinear = P.NonlinearConstraints(ncs, False, False)
            tol = 2.0 ** -20
            pb = P.Problem(obj, ctx.arr(x0), bnds, linear, nonlinear, None, tol, bool(shape["scale"]),
                           False, 1, sys.maxsize, False)
            out["n_int"] = pb.n
            free = [i for i, p in enumerate(shape["pat"]) if p != "fixed"]
            out["free"] = free
            if pb.n != len(free):
                out["exc"] = f"reduced dimension {pb.n} != {len(free)}"
                return out
            out["internal"] = dict(xl=list(pb.bounds.xl), xu=list(pb.bounds.xu),
                                   a_ub=[list(r) for r in pb.linear.a_ub], b_ub=list(pb.linear.b_ub),
                                   a_eq=[list(r) for r in pb.linear.a_eq], b_eq=list(pb.linear.b_eq))
            if fam == "C":
                x = [0.25, -0.5][:pb.n]
            else:
                x = [e.fresh_in(f"x{i}", -2e3, 2e3) for i in range(pb.n)]
            if shape["inside"]:
                for i in range(pb.n):
                    e.assume(pb.bounds.xl[i] <= x[i])
                    e.assume(pb.bounds.xu[i] >= x[i])
            out["x"] = x
            f, cub, ceq = pb(ctx.arr(x))
            out["ret"] = (f, list(cub), list(ceq))
            out["maxcv_direct"] = pb.maxcv(ctx.arr(x), cub, ceq)
            xb, fb, vb = pb.best_eval(0.0)
            out["best"] = (list(pb.build_x(xb)), fb, vb)
            out["n_calls_after"] = len(log)
        except core.ReplayDiverged:
            raise
        except Exception as ex:
            import traceback
            out["exc"] = f"{type(ex).__name__}: {ex}"
            tb = traceback.extract_tb(ex.__traceback__)
            where = [fr for fr in tb if "/cobyqa/" in fr.filename]
            out["exc_where"] = f"{where[-1].filename.split('/cobyqa/')[-1]}:{where[-1].name}" if where else "?"
        return out

    # ------------------------------------------------------------------
    def judge(self, ctx, shape, o):
        claims, goals = [], []
        n = shape["n"]
        sig = f"{shape['fam']}:{'+'.join(shape['pat'])}:scale={shape['scale']}"

        fpinfo = dict(fp=True) if shape["fam"] == "F" else None

        def C(prop, clause, cond, s=None, info=None):
            claims.append(Claim(prop, "pb:" + clause, cond, sig=s or sig, info=info))

        C("C02", "statement_accepted_without_internal_error", "exc" not in o,
          s=f"{sig}:{o.get('exc', '')[:40]}@{o.get('exc_where', '')}")
        if "exc" in o:
            goals.append("exception")
            return claims, goals
        lbs, ubs = o["lbs"], o["ubs"]
        log = o["log"]
        funs = [r for r in log if r["t"] == "fun"]
        # ---- C06: call discipline and argument ------------------------------------
        C("C06", "objective_called_exactly_once", len(funs) == 1, s=f"{sig}:calls={len(funs)}")
        for j in range(len(o["nl_user"])):
            k = len([r for r in log if r["t"] == "con" and r["j"] == j])
            C("C06", "constraint_called_exactly_once", k == 1, s=f"{sig}:calls={k}")
        # expected user point from the harness' own mapping
        free = o["free"]
        x = o["x"]
        exp = [None] * n
        for i, p in enumerate(shape["pat"]):
            if p == "fixed":
                exp[i] = lbs[i]
        for kk, i in enumerate(free):
            v = lift(x[kk])
            if shape["scale"] and all(isfin(lbs[t]) and isfin(ubs[t]) for t in free):
                v = v * (0.5 * (lift(ubs[i]) - lbs[i])) + 0.5 * (lift(ubs[i]) + lbs[i])
            v = symnp.min2(symnp.max2(v, lbs[i]), ubs[i])
            exp[i] = v
        for r in log:
            C("C06", "user_function_called_at_the_evaluated_point_in_user_variables",
              len(r["x"]) == n and all_of(close(r["x"][i], exp[i], MARGIN) for i in range(n)) if len(r["x"]) == n else False,
              s=f"{sig}:{r['t']}")
            # ---- C01: inside the user's bounds, fixed variables pinned ------------
            if len(r["x"]) == n:
                C("C01", "user_function_argument_within_bounds",
                  all_of(b_and(lift(lbs[i]) <= r["x"][i], lift(r["x"][i]) <= ubs[i]) for i in range(n)), s=f"{sig}:{r['t']}",
                  info=fpinfo)
                C("C01", "fixed_variable_held_at_its_value",
                  all_of(lift(r["x"][i]) == lbs[i] for i, p in enumerate(shape["pat"]) if p == "fixed"), s=f"{sig}:{r['t']}",
                  info=fpinfo)
        bx, fb, vb = o["best"]
        C("C01", "returned_point_within_bounds",
          len(bx) == n and all_of(b_and(lift(lbs[i]) <= bx[i], lift(bx[i]) <= ubs[i]) for i in range(n)), info=fpinfo)
        if not funs or len(funs[0]["x"]) != n:
            return claims, goals
        xu = funs[0]["x"]
        # ---- true violation in the user's terms -------------------------------------
        ex = [0.0]
        for i in range(n):
            ex += sym_excess(xu[i], lbs[i], ubs[i])
        lin_ex, nl_ex = [], []
        for (rows, lb, ub) in o["lin_user"]:
            for row, l, u in zip(rows, lb, ub):
                ax = 0.0
                for a, xi in zip(row, xu):
                    if isnan(a):
                        continue                      # documented: NaN coefficients count as 0
                    ax = ax + lift(a) * xi
                lin_ex += sym_excess(ax, l, u)
        cvals = {}
        for r in log:
            if r["t"] == "con":
                cvals.setdefault(r["j"], r["v"])
        for j, (mm, lb, ub) in enumerate(o["nl_user"]):
            if j not in cvals:
                return claims, goals
            for v, l, u in zip(cvals[j], lb, ub):
                nl_ex += sym_excess(v, l, u)
        true_v = vmax(ex + lin_ex + nl_ex)
        if shape["inside"]:
            goals.append("inside")
            C("C02", "reported_maxcv_is_true_violation_in_user_terms", close(vb, true_v, MARGIN))
            C("C02", "reported_fun_is_objective_value", same_value(fb, funs[0]["v"]))
            C("C02", "returned_x_is_the_evaluated_point", all_of(close(bx[i], xu[i], MARGIN) for i in range(n)))
            C("C02", "maxcv_of_supplied_values_agrees", close(o["maxcv_direct"], true_v, MARGIN))
            # ---- C17: internal form ------------------------------------------------
            f, cub, ceq = o["ret"]
            it = o["internal"]
            xin = [lift(v) for v in x]
            lin_int = [0.0]
            for row, b in zip(it["a_ub"], it["b_ub"]):
                s = -lift(b)
                for a, xi in zip(row, xin):
                    s = s + lift(a) * xi
                lin_int.append(s)
            for row, b in zip(it["a_eq"], it["b_eq"]):
                s = -lift(b)
                for a, xi in zip(row, xin):
                    s = s + lift(a) * xi
                lin_int.append(abs(s))
            C("C17", "largest_internal_linear_violation_equals_largest_excess",
              close(vmax(lin_int), vmax([0.0] + lin_ex), MARGIN), s=f"{sig}:lin")
            nl_int = [0.0] + [lift(v) for v in cub] + [abs(lift(v)) for v in ceq]
            C("C17", "largest_internal_nonlinear_violation_equals_largest_excess",
              close(vmax(nl_int), vmax([0.0] + nl_ex), MARGIN), s=f"{sig}:nl")
            # counts of internal constraints per limit pattern
            def count(lims):
                ub_n = eq_n = 0
                for l, u in lims:
                    l, u = lift(l), lift(u)
                    if l.k == FIN and u.k == FIN:
                        if shape.get("tolgap"):
                            return None
                        if z3_same(l, u):
                            eq_n += 1
                        else:
                            ub_n += 2
                    else:
                        ub_n += (l.k == FIN) + (u.k == FIN)
                return ub_n, eq_n
            lims_lin = [(l, u) for (rows, lb, ub) in o["lin_user"] for l, u in zip(lb, ub)]
            lims_nl = [(l, u) for (mm, lb, ub) in o["nl_user"] for l, u in zip(lb, ub)]
            cl, cn = count(lims_lin), count(lims_nl)
            if cl is not None:
                C("C17", "number_of_internal_linear_constraints", (len(it["b_ub"]), len(it["b_eq"])) == cl,
                  s=f"{sig}:{cl}")
            if cn is not None:
                C("C17", "number_of_internal_nonlinear_constraints", (len(cub), len(ceq)) == cn, s=f"{sig}:{cn}")
        else:
            goals.append("outside")
        if any(p == "fixed" for p in shape["pat"]):
            goals.append("fixed_variable")
        if shape["scale"]:
            goals.append("scaled")
        return claims, goals

    def required_goals(self, tier, prop):
        return ["inside", "fixed_variable", "scaled"]

    def digest(self, ctx, shape, o):
        if "exc" in o:
            return ["exc", o["exc"][:30]]
        bx, fb, vb = o["best"]
        return [len(o["log"]), o["n_int"], list(bx), fb, vb, list(o["ret"][1]), list(o["ret"][2])]


def z3_same(a, b):
    """structurally the same finite value (used for the 'equal' limit pattern)"""
    import z3
    return z3.is_true(z3.simplify(a.r == b.r))


HARNESS = Pb()
