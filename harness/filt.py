"""H-FILT: filter and best-point selection.

Real code run symbolically: Problem.__init__, Problem.__call__ (filter insertion,
removal, eviction, barrier), Problem.best_eval, on a 1-variable unconstrained
problem fed K evaluations.  The only collaborator replaced is Problem.maxcv on
the instance, which injects the violation v_i of evaluation i (so that the
solver ranges over every (f_i, v_i) history rather than over what constraint
arithmetic happens to produce).
"""
import sys

from sx import core
from sx.core import FIN, NAN, PINF, NINF, lift, b_and, b_or, b_not, b_implies
from sx.runner import Claim
from .base import Harness, isnan, isfin, all_of, any_of, same_value, kindname
from .oracles import selection_rules

F_KINDS = (FIN, NAN, PINF, NINF)
V_KINDS = (FIN, NAN, PINF)


class Filt(Harness):
    name = "filt"
    serves = ("C03", "C02")
    functions = ("cobyqa/problem.py:Problem.__init__", "cobyqa/problem.py:Problem.__call__",
                 "cobyqa/problem.py:Problem.best_eval", "cobyqa/problem.py:Problem.build_x",
                 "cobyqa/problem.py:ObjectiveFunction.__call__", "cobyqa/problem.py:BoundConstraints.project")
    stubs = ("Problem.maxcv on the instance returns the injected violation v_i of evaluation i",)
    assumptions = ("violations are >= 0 or NaN or +inf (a maximum of excesses and 0 cannot be negative or -inf)",
                   "penalty >= 0 finite, feasibility_tol > 0 finite",
                   "merit arithmetic f + penalty*v is exact real arithmetic on finite operands")

    def shapes(self, tier, prop=None):
        out = []
        if tier == "quick":
            for K in (1, 2, 3):
                for fs in (0, 1, 2):
                    if fs and fs >= K:
                        continue
                    out.append(dict(K=K, filter_size=fs, kinds="all"))
        else:
            for K in (1, 2, 3, 4):
                for fs in (0, 1, 2, 3):
                    if fs and fs >= K:
                        continue
                    out.append(dict(K=K, filter_size=fs, kinds="all"))
            for fs in (0, 2, 3):
                out.append(dict(K=5, filter_size=fs, kinds="fin-nan"))
        if prop == "C02":      # only the identity clauses: small histories suffice
            out = [s for s in out if s["K"] <= (2 if tier == "quick" else 3)]
        return out

    def run(self, ctx, shape):
        e, M, np = ctx.e, ctx.M, ctx.np
        K = shape["K"]
        fk = F_KINDS if shape["kinds"] == "all" else (FIN, NAN)
        vk = V_KINDS if shape["kinds"] == "all" else (FIN, NAN)
        P = M.problem
        pen = e.fresh("pen")
        tol = e.fresh("tol")
        e.assume(pen >= 0.0)
        e.assume(tol > 0.0)
        fs, vs = [], []
        state = {"i": -1}

        def fun(x):
            state["i"] += 1
            return fs[state["i"]]

        obj = P.ObjectiveFunction(fun, False, False)
        bounds = P.BoundConstraints(M.Bounds(ctx.arr([-np.inf]), ctx.arr([np.inf])))
        lin = P.LinearConstraints([], 1, False)
        nl = P.NonlinearConstraints([], False, False)
        fsize = shape["filter_size"] or sys.maxsize
        pb = P.Problem(obj, ctx.arr([0.0]), bounds, lin, nl, None, tol, False, False, 1, fsize, False)
        pb.maxcv = lambda x, cub_val=None, ceq_val=None: vs[state["i"]]
        rets = []
        for i in range(K):
            f = e.fresh(f"f{i}", fk)
            v = e.fresh(f"v{i}", vk)
            if isfin(v):
                e.assume(v >= 0.0)
            fs.append(f)
            vs.append(v)
            rets.append(pb(ctx.arr([float(i)]), pen))
        x, rf, rv = pb.best_eval(pen)
        ridx = int(float(x[0]))
        retained = [int(float(xx[0])) for xx in pb._x_filter]
        return dict(fs=fs, vs=vs, pen=pen, tol=tol, ridx=ridx, rf=rf, rv=rv, retained=retained,
                    rets=[r[0] for r in rets])

    def judge(self, ctx, shape, o):
        K = shape["K"]
        fs = [lift(f) for f in o["fs"]]
        vs = [lift(v) for v in o["vs"]]
        pen, tol = lift(o["pen"]), lift(o["tol"])
        r = o["ridx"]
        unbounded = shape["filter_size"] == 0
        sig = "nan-involved" if any(isnan(x) for x in fs + vs) else "all-defined"
        claims = []
        goals = []

        def C(clause, cond):
            claims.append(Claim("C03", clause, cond, sig=sig))

        def rules(S, tag):
            selection_rules(C, fs, vs, pen, tol, r, S, tag)

        S = o["retained"]
        if unbounded:
            rules(list(range(K)), "")
            goals.append("unbounded_filter")
        else:
            rules(S, "retained:")
            goals.append("finite_filter")
            C("retained:size", len(S) <= shape["filter_size"])
        # retained set: non-dominated among itself, returned point belongs to it
        C("retained:returned_point_is_retained", r in S)
        for a in S:
            for b in S:
                if a != b and not isnan(fs[a]) and not isnan(fs[b]) and not isnan(vs[a]) and not isnan(vs[b]):
                    C("retained:mutually_non_dominated",
                      b_not(b_and(fs[a] <= fs[b], vs[a] <= vs[b])))
        # C02 (component level): the values returned are those of the returned evaluation
        claims.append(Claim("C02", "filter:returned_fun_is_value_of_returned_point",
                            same_value(o["rf"], fs[r]), sig=sig))
        claims.append(Claim("C02", "filter:returned_maxcv_is_value_of_returned_point",
                            same_value(o["rv"], vs[r]), sig=sig))
        if any(isnan(f) for f in fs):
            goals.append("nan_objective")
        if any(isnan(v) for v in vs):
            goals.append("nan_violation")
        if len(S) < K:
            goals.append("dominated_point_dropped")
        return claims, goals

    def digest(self, ctx, shape, o):
        return [o["ridx"], list(o["retained"]), o["rf"], o["rv"]]


HARNESS = Filt()
