"""H-CTL: end-to-end control flow of minimize (configuration A: concrete geometry,
symbolic function values).

Real code run symbolically: main.minimize, main._eval, main._build_result,
all of problem.py, framework.TrustRegion (except the numerical kernels it
calls), models.Interpolation, models.Models (except Quadratic).
Nondeterministic contract stubs (DESIGN.md 2.5): Quadratic, the five
sub-solvers, lsq_linear, Models.determinants, TrustRegion._get_low_penalty.
User objective / constraint functions return a fresh symbolic double at every
call; the callback may raise StopIteration at any call.
"""
import copy
import math
import sys

import numpy as _np

from sx import core, symnp
from sx.core import FIN, NAN, PINF, NINF, lift, b_and, b_or, b_not, b_implies, SymFloat
from sx.runner import Claim
from .base import Harness, isnan, isfin, all_of, any_of, same_value, close, kindname
from .oracles import vmax, interval_excess, selection_rules

INF = math.inf
BARRIER = 2.0 ** 100

# ---------------------------------------------------------------------------
# concrete problem statements (geometry concrete, function values symbolic)
# ---------------------------------------------------------------------------
# lin: list of (A rows, lb list, ub list); nl: list of (m, lb list, ub list, form) form in {"nlc", "dict-ineq", "dict-eq"}
PROBLEMS = {
    "unc1":    dict(n=1, x0=[0.5], bounds=None),
    "box1":    dict(n=1, x0=[0.25], bounds=[[0.0, 2.0]]),
    "box1out": dict(n=1, x0=[5.0], bounds=[[0.0, 2.0]]),
    "box2s":   dict(n=2, x0=[1.0, 0.5], bounds=[[0.0, 4.0], [-1.0, 1.0]], scale=True),
    "fixed1":  dict(n=2, x0=[0.5, 7.0], bounds=[[0.0, 2.0], [1.0, 1.0]]),
    "allfix":  dict(n=2, x0=[0.0, 0.0], bounds=[[1.0, 1.0], [2.0, 2.0]]),
    "infeas":  dict(n=1, x0=[0.5], bounds=[[1.0, 0.0]]),
    "linub":   dict(n=1, x0=[0.5], bounds=None, lin=[([[1.0]], [-INF], [0.25])]),
    "lineq":   dict(n=2, x0=[0.5, 0.5], bounds=None, lin=[([[1.0, 1.0]], [1.0], [1.0])]),
    "nlub":    dict(n=1, x0=[0.5], bounds=None, nl=[(1, [-INF], [0.0], "nlc")]),
    "nleq":    dict(n=1, x0=[0.5], bounds=None, nl=[(1, [1.0], [1.0], "nlc")]),
    "nl2":     dict(n=1, x0=[0.5], bounds=[[-3.0, 3.0]], nl=[(1, [-INF], [0.0], "nlc"), (1, [-1.0], [1.0], "nlc")]),
    "feas":    dict(n=1, x0=[0.5], bounds=None, nl=[(1, [-INF], [0.0], "nlc")], fun=False),
    "feaslin": dict(n=1, x0=[0.5], bounds=None, lin=[([[1.0]], [-INF], [0.0])], fun=False),
    "dict":    dict(n=1, x0=[0.5], bounds=None, nl=[(1, [0.0], [INF], "dict-ineq")]),
    "narrow":  dict(n=1, x0=[0.1], bounds=[[0.0, 0.5]]),
    "narrow2": dict(n=1, x0=[0.1], bounds=[[0.0, 0.25]]),
    "contra":  dict(n=1, x0=[0.5], bounds=None, lin=[([[1.0]], [-INF], [0.0]), ([[1.0]], [1.0], [INF]), ([[2.0]], [-INF], [0.0])]),
    "infeasnl": dict(n=1, x0=[0.5], bounds=[[1.0, 0.0]], nl=[(1, [-INF], [0.0], "nlc")]),
    "allfixnl": dict(n=2, x0=[0.0, 0.0], bounds=[[1.0, 1.0], [2.0, 2.0]], nl=[(2, [-INF, 0.0], [0.0, 0.0], "nlc")],
                     lin=[([[1.0, -1.0]], [0.0], [0.0])]),
    "dict2":   dict(n=1, x0=[0.5], bounds=None, nl=[(1, [0.0], [INF], "dict-ineq"), (1, [0.0], [0.0], "dict-eq")]),
    "fixnls":  dict(n=2, x0=[0.5, 7.0], bounds=[[0.0, 2.0], [1.0, 1.0]], nl=[(1, [-INF], [0.0], "nlc")], scale=True),
    "boxnls":  dict(n=1, x0=[0.5], bounds=[[0.0, 4.0]], nl=[(1, [-INF], [0.0], "nlc")], scale=True),
    "infeascb": dict(n=1, x0=[0.5], bounds=[[1.0, 0.0]]),
    "nanbox":  dict(n=2, x0=[0.5, 0.25], bounds=[[math.nan, 2.0], [0.0, math.nan]]),
    "nanboxarr": dict(n=2, x0=[0.5, 0.25], bounds=[[math.nan, 2.0], [0.0, math.nan]], bounds_form="array",
                      lin=[([[1.0, 1.0]], [-INF], [3.0])]),
    "allfixlin": dict(n=2, x0=[0.0, 0.0], bounds=[[1.0, 1.0], [2.0, 2.0]], lin=[([[1.0, 1.0]], [-INF], [2.0])]),
    "fixlin":  dict(n=2, x0=[0.5, 7.0], bounds=[[0.0, 2.0], [1.0, 1.0]], lin=[([[1.0, 1.0]], [-INF], [1.25])]),
    "feaslin2": dict(n=1, x0=[0.5], bounds=None, lin=[([[1.0]], [1.7], [INF])], fun=False),
    "tgtlin":  dict(n=1, x0=[0.5], bounds=None, lin=[([[1.0]], [1.7], [INF])]),
    "linnl":   dict(n=1, x0=[0.5], bounds=None, lin=[([[1.0]], [-INF], [0.25])], nl=[(1, [-INF], [0.0], "nlc")]),
}

STATUS_MSG = {
    0: "The lower bound for the trust-region radius has been reached",
    1: "The target objective function value has been reached",
    2: "All variables are fixed by the bound constraints",
    3: "The callback requested to stop the optimization procedure",
    4: "The feasibility problem received has been solved successfully",
    5: "The maximum number of function evaluations has been exceeded",
    6: "The maximum number of iterations has been exceeded",
    -1: "The bound constraints are infeasible",
    -2: "A linear algebra error occurred",
}


def clean_bounds(b):
    """the user's bounds with NaN meaning 'no bound' (documented)"""
    if b is None:
        return None
    return [[-INF if (isinstance(r[0], float) and math.isnan(r[0])) else r[0],
             INF if (isinstance(r[1], float) and math.isnan(r[1])) else r[1]] for r in b]


def module_state(M):
    """repr of every mutable module-level container of the loaded cobyqa modules (state that could survive a call)"""
    out = {}
    for m in M.all_modules():
        if ".tests" in m.__name__:
            continue
        for k, v in list(m.__dict__.items()):
            if k.startswith("__") or k in ("DEFAULT_OPTIONS", "DEFAULT_CONSTANTS", "PRINT_OPTIONS"):
                continue
            if isinstance(v, (dict, list, set)):
                try:
                    out[f"{m.__name__.split('.', 1)[-1]}.{k}"] = (type(v).__name__, len(v), repr(sorted(map(repr, v)))[:200])
                except Exception:
                    out[f"{m.__name__.split('.', 1)[-1]}.{k}"] = (type(v).__name__, len(v), "")
        # class-level mutable attributes
        for k, v in list(m.__dict__.items()):
            if isinstance(v, type) and getattr(v, "__module__", "") == m.__name__:
                for a, w in list(vars(v).items()):
                    if isinstance(w, (dict, list, set)) and not a.startswith("__"):
                        out[f"{m.__name__.split('.', 1)[-1]}.{k}.{a}"] = (type(w).__name__, len(w), "")
    return out


def flt(x):
    """concrete python float of a concrete element"""
    if isinstance(x, SymFloat):
        c = x.concrete()
        if c is None:
            raise core.EngineError("geometry became symbolic in configuration A")
        return c
    return float(x)


def pt(x):
    return [flt(v) for v in _np.asarray(x, dtype=object).ravel()]


class Tape:
    """Records the nondeterministic choices / values of one run and replays them in a second run
    (used to compare a repeated or nested call with the first one on the same path)."""

    def __init__(self, e):
        self.e = e
        self.items = []
        self.pos = None
        self.diverged = False
        self.mode = e.mode

    def rewind(self):
        self.pos = 0

    def _next(self, kind, make):
        if self.pos is None:
            v = make()
            self.items.append((kind, v))
            return v
        if self.pos < len(self.items) and self.items[self.pos][0] == kind:
            v = self.items[self.pos][1]
            self.pos += 1
            return v
        self.diverged = True
        return make()

    def choose(self, n, label=None):
        return self._next(("c", n), lambda: self.e.choose(n, label))

    def fresh_in(self, name, lo=None, hi=None, kinds=(FIN,)):
        return self._next(("v", name[:1]), lambda: self.e.fresh_in(name, lo, hi, kinds))


class Ctl(Harness):
    name = "ctl"
    serves = ("C02", "C03", "C05", "C06", "C07", "C08", "C09", "C20", "C01", "C11", "C12", "C18")
    functions = ("cobyqa/main.py:minimize", "cobyqa/main.py:_eval", "cobyqa/main.py:_build_result",
                 "cobyqa/problem.py:Problem.__call__", "cobyqa/problem.py:Problem.best_eval",
                 "cobyqa/framework.py:TrustRegion.__init__", "cobyqa/models.py:Models.__init__",
                 "cobyqa/models.py:Interpolation.__init__")
    stubs = ("models.Quadratic: model values are arbitrary finite numbers, gradients/Hessians zero, update returns an arbitrary ill_conditioned flag, construction/update may raise LinAlgError once per run",
             "framework.normal_/tangential_/constrained_tangential_byrd_omojokun, cauchy_/spider_geometry: return a step from a menu, inside the xl/xu and radius they were handed (contract = C15)",
             "framework.lsq_linear: multipliers all zero or all one",
             "Models.determinants: one of three concrete weight patterns, or LinAlgError once per run",
             "TrustRegion._get_low_penalty: one of 0, 1/2, +inf",
             "framework.qr_tangential_byrd_omojokun: no active constraint")
    assumptions = ("geometry (x0, bounds, linear coefficients, steps) is concrete; every value returned by a user function is a fresh symbolic double (noisy-function model), kinds per shape",
                   "norm of a vector with >= 2 symbolic entries is over-approximated by a fresh real between its max-norm and 1-norm")

    def engine_opts(self, shape):
        return dict(timeout_ms=4000)

    # -- shapes -------------------------------------------------------------
    def shapes(self, tier, prop=None):
        S = []

        def add(pb, maxfev, maxiter, cb="none", kinds="fin", npt=None, hist=0, target=False, **kw):
            d = dict(pb=pb, maxfev=maxfev, maxiter=maxiter, cb=cb, kinds=kinds, npt=npt, hist=hist, target=target)
            d.update(kw)
            S.append(d)

        if tier == "quick":
            add("unc1", 4, 2)
            add("unc1", 2, 2, kinds="all", npt=3)
            add("unc1", 3, 1, cb="pos", target=True)
            add("unc1", 3, 1, kinds="all", target="inf", npt=2)
            add("nlub", 2, 1, kinds="all", target="inf", npt=2)
            add("box1", 3, 2, cb="kw", hist=2)
            add("box1out", 3, 1, cb="pos")
            add("box2s", 4, 1, cb="pos", npt=3)
            add("fixed1", 3, 1, cb="kw")
            add("allfix", 3, 1, cb="pos")
            add("allfixlin", 3, 1)
            add("fixlin", 3, 1, cb="pos")
            add("infeas", 3, 1)
            add("infeascb", 3, 1, cb="pos")
            add("linub", 3, 1, cb="pos")
            add("lineq", 4, 1, npt=3)
            add("feaslin", 3, 1)
            add("feaslin2", 5, 2)
            add("tgtlin", 4, 1, target=True)
            add("boxnls", 3, 1, npt=2, cb="pos", heavy=True)            # symbolic constraint values: 40k paths
            add("boxnls", 3, 1, npt=2, cb="pos", con_const=0.5)        # same run with a constant constraint value
            add("nlub", 2, 1, cb="pos", kinds="all", npt=2)
            add("nleq", 2, 1, target=True, npt=2)
            add("nl2", 2, 1, npt=2, heavy=True)
            add("nl2", 3, 1, npt=2, con_const=0.5)
            add("feas", 3, 1, cb="pos", npt=2)
            add("dict", 2, 1, npt=2, cb="kw")
            add("dict2", 2, 1, npt=2, con_const=0.5)
            add("narrow", 4, 2, cb="pos", hist=1)
            add("narrow2", 4, 2, fun_seq=[5.0, 4.0, 6.0, 3.5])
            # the expansion point is shifted early (large_shift_factor = 1/2) while the feasible x0 stays the best evaluated point
            add("nlub", 6, 3, npt=2, fun_seq=[5.0, 4.0, 3.0, 2.5, 2.0, 1.5], con_seq=[-1.0, 0.5, 0.5, 0.5, 0.5, 0.5],
                consts={"large_shift_factor": 0.5})
            add("unc1", 6, 3, npt=2, fun_seq=[5.0, 4.0, 3.0, 2.5, 2.0, 1.5], consts={"large_shift_factor": 0.5}, cb="pos")
            add("contra", 3, 1, cb="kw")
            add("infeasnl", 3, 1, cb="pos", kinds="all")
            add("allfixnl", 3, 1, cb="kw", kinds="all")
            add("fixnls", 2, 1, cb="kw", npt=2)
            add("nlub", 2, 1, npt=2)
            add("linnl", 2, 1, npt=2)
            add("unc1", 3, 1, faults=1, ill=1)
            add("box1", 3, 1, cb="lambda-pos", scribble=True)
            add("box1", 3, 1, cb="kwonly-kw")
            add("box2s", 3, 1, cb="obj-kw", npt=3, scribble=True)
            add("fixed1", 3, 1, cb="partial-pos")
            add("linub", 3, 1, cb="partial-kw")
            add("nlub", 4, 1, npt=2, force="soc", con_const=1.0)
            add("nlub", 4, 1, npt=2, force="soc", con_const=1.0, cb="pos")
            add("unc1", 6, 3, fun_seq=[5.0, 4.0, 6.0, 3.5, 3.75, 3.25], npt=2)
            add("box1", 6, 3, fun_seq=[5.0, 4.0, 6.0, 3.5, 3.75, 3.25], npt=2, cb="pos")
            add("nlub", 6, 3, fun_seq=[5.0, 4.0, 6.0, 3.5, 3.75, 3.25], npt=2, con_const=-1.0)
            add("nanbox", 3, 1, npt=3)
            add("nanboxarr", 3, 1, npt=3, cb="pos")
            add("unc1", 3, 1, repeat=True)
            add("box1", 3, 1, cb="pos", repeat=True)
            add("nlub", 2, 1, npt=2, repeat=True)
            add("unc1", 3, 1, nested=True)
        else:
            for pb in PROBLEMS:
                n = PROBLEMS[pb]["n"]
                add(pb, 5, 3, cb="pos", npt=n + 1)
                add(pb, 4, 2, cb="kw", hist=2, target=True)
                add(pb, 3, 2, kinds="all", npt=n + 1)
                add(pb, 6, 2, npt=n + 1)
                add(pb, 2, 2, cb="pos", kinds="all")
            for pb in ("unc1", "box1", "lineq", "nlub"):
                add(pb, 4, 2, faults=1, ill=1, menu=3, npt=PROBLEMS[pb]["n"] + 1)
                add(pb, 3, 1, cb="obj-kw", scribble=True, npt=PROBLEMS[pb]["n"] + 1)
                add(pb, 3, 1, cb="partial-pos", scribble=True, npt=PROBLEMS[pb]["n"] + 1)
            seq = [5.0, 4.0, 6.0, 3.5, 3.75, 3.25, 3.0, 3.125]
            for pb in ("unc1", "box1", "box2s", "fixed1", "linub", "lineq", "nanbox"):
                add(pb, 8, 4, fun_seq=seq, npt=PROBLEMS[pb]["n"] + 1, cb="pos")
            for pb in ("nlub", "nleq", "boxnls", "fixnls", "linnl", "dict"):
                add(pb, 7, 3, fun_seq=seq, npt=2, con_const=-1.0)
                add(pb, 6, 3, fun_seq=seq, npt=2, con_const=1.0, cb="kw")
                add(pb, 5, 2, npt=2, con_const=0.5, force="soc")
            add("unc1", 4, 2, repeat=True)
            add("box1", 3, 1, cb="pos", repeat=True)
            add("nlub", 3, 1, npt=2, repeat=True)
            add("unc1", 3, 1, nested=True)
            add("box1", 3, 1, nested=True)
        def keep(d):
            P = PROBLEMS[d["pb"]]
            if d.get("heavy"):
                # the expensive variants only where the symbolic constraint values matter
                return prop in ("C20", "C03") if d["pb"] == "boxnls" else prop in ("C06",)
            if prop == "C20":
                return d["cb"] != "none"
            if prop == "C09":
                return d["cb"] != "none" or d["target"] or not P.get("fun", True)
            if prop == "C01":
                return P.get("bounds") is not None
            if d.get("repeat") or d.get("nested"):
                return prop == "C11"
            if d.get("force"):
                return prop in ("C12", "C01", "C18", "C05", "C09", "C20") and (d["cb"] == "none" or prop in ("C09", "C20"))
            if d.get("fun_seq"):
                return prop in ("C07", "C18", "C05", "C12", "C08", "C02", "C03", "C20", "C09", "C06", "C01")
            if prop in ("C11", "C18", "C12"):
                return d["pb"] in ("unc1", "box1", "lineq", "box2s", "linub", "fixed1", "nanbox", "nanboxarr", "narrow", "narrow2") or \
                    (d["pb"] in ("nlub", "feas") and d["kinds"] == "fin") or (d["pb"] == "boxnls" and prop != "C11")
            return True
        return [d for d in S if keep(d)]

    # -- stubs --------------------------------------------------------------
    def prepare(self, ctx, shape):
        M = ctx.M
        np = ctx.np
        st = ctx.st = dict(faults=0, ill=0, menu=2)

        def eng():
            return getattr(ctx, "tape", None) or core.engine()

        def mk(xs):
            return ctx.arr(xs)

        class StubQuadratic:
            def __init__(self, interpolation, values, debug):
                self.n = interpolation.n
                self.cache = {}
                if interpolation.npt < interpolation.n + 1:
                    raise ValueError(
                        f"The number of interpolation points must be at least {interpolation.n + 1}.")
                if st["faults"] > 0 and eng().choose(2, "quad-linalg") == 1:
                    st["faults"] -= 1
                    raise _np.linalg.LinAlgError("stub: ill-defined system")

            def __call__(self, x, interpolation):
                # a model is a function: the same point gives the same value until the model changes
                key = tuple(pt(x))
                if key not in self.cache:
                    self.cache[key] = eng().fresh_in("m", -1e6, 1e6)
                return self.cache[key]

            def grad(self, x, interpolation):
                return mk([0.0] * self.n)

            def hess(self, interpolation):
                return mk([[0.0] * self.n for _ in range(self.n)])

            def hess_prod(self, v, interpolation):
                return mk([0.0] * self.n)

            def curv(self, v, interpolation):
                return 0.0

            def update(self, interpolation, k_new, dir_old, values_diff):
                self.cache = {}
                if st["ill"] > 0 and eng().choose(2, "ill") == 1:
                    st["ill"] -= 1
                    return True
                return False

            def shift_x_base(self, interpolation, new_x_base):
                pass

        M.patch(M.models, "Quadratic", StubQuadratic)
        M.patch(M.framework, "Quadratic", StubQuadratic)

        def menu_step(xl, xu, delta, fracs):
            n = len(xl)
            xl = [flt(v) for v in xl]
            xu = [flt(v) for v in xu]
            d = flt(delta)
            fracs = fracs[:max(1, st["menu"])]
            if st.get("force"):
                fracs = [st["force"].pop(0)] if st["force"] else fracs[:1]
            k = eng().choose(len(fracs), "step")
            fr = fracs[k]
            s = []
            for i in range(n):
                v = fr[i % len(fr)] * d if i < 2 else 0.0
                v = min(max(v, min(xl[i], 0.0)), max(xu[i], 0.0))
                s.append(v)
            nrm = math.sqrt(sum(v * v for v in s))
            if nrm > d > 0:
                s = [v * d / nrm for v in s]
            return mk(s)

        def normal_stub(aub, bub, aeq, beq, xl, xu, delta, debug, **kw):
            if len(bub) + len(beq) == 0:
                return mk([0.0] * len(xl))
            return menu_step(xl, xu, delta, [(0.0, 0.0), (1.0, 0.0)])

        def tang_stub(grad, hp, xl, xu, delta, debug, **kw):
            return menu_step(xl, xu, delta, [(1.0, 0.0), (0.0, 0.0), (-0.25, 0.5)])

        def ctang_stub(grad, hp, xl, xu, aub, bub, aeq, delta, debug, **kw):
            return menu_step(xl, xu, delta, [(1.0, 0.0), (0.0, 0.0), (-0.25, 0.5)])

        def cauchy_stub(const, grad, curv, xl, xu, delta, debug):
            return menu_step(xl, xu, delta, [(0.5, 0.0), (0.0, 0.0)])

        def spider_stub(const, grad, curv, xpt, xl, xu, delta, debug):
            return menu_step(xl, xu, delta, [(-0.5, 0.25)])

        fw = M.framework
        for nm, f in (("normal_byrd_omojokun", normal_stub), ("tangential_byrd_omojokun", tang_stub),
                      ("constrained_tangential_byrd_omojokun", ctang_stub), ("cauchy_geometry", cauchy_stub),
                      ("spider_geometry", spider_stub)):
            M.need(fw, nm)
            M.patch(fw, nm, f)

        class _Res:
            pass

        def lsq_stub(A, b, bounds=None, method=None, **kw):
            r = _Res()
            k = eng().choose(2, "lsq") if st["menu"] > 2 else 0
            r.x = mk([float(k)] * A.shape[1])
            return r

        M.need(fw, "lsq_linear")
        M.patch(fw, "lsq_linear", lsq_stub)
        M.patch(fw, "qr_tangential_byrd_omojokun",
                lambda aub, aeq, fxl, fxu, fub: (0, mk(_np.eye(len(fxl)).tolist())))

        def det_stub(self_, x_new, k_new=None):
            e = eng()
            if st["faults"] > 0 and e.choose(2, "det-linalg") == 1:
                st["faults"] -= 1
                raise _np.linalg.LinAlgError("stub: determinant")
            if k_new is not None:
                return [1.0, 0.25][e.choose(2, "det1") if st["menu"] > 2 else 0]
            pat = e.choose(2, "detall") if st["menu"] > 2 else 0
            npt = self_.npt
            return mk([1.0 + (i if pat == 0 else npt - i) for i in range(npt)])

        M.patch(M.models.Models, "determinants", det_stub)

        def low_pen_stub(self_):
            return [0.0, 0.5, INF][eng().choose(3 if st["menu"] > 2 else 2, "lowpen")]

        M.need(fw.TrustRegion, "_get_low_penalty")
        M.patch(fw.TrustRegion, "_get_low_penalty", low_pen_stub)
        core.OPAQUE_NORM[0] = True

    # -- the run --------------------------------------------------------------
    def run(self, ctx, shape):
        ctx.tape = None
        if not (shape.get("repeat") or shape.get("nested")):
            return self._call(ctx, shape)
        ctx.tape = Tape(ctx.e)
        try:
            first = self._call(ctx, shape)
            ctx.tape.rewind()
            second = self._call(ctx, shape, inner=bool(shape.get("nested")))
            first["second"] = second
            first["tape_diverged"] = ctx.tape.diverged or ctx.tape.pos != len(ctx.tape.items)
        finally:
            ctx.tape = None
        return first

    def _call(self, ctx, shape, inner=False):
        M, np = ctx.M, ctx.np
        e = ctx.tape or ctx.e
        ctx.st.update(faults=shape.get("faults", 0), ill=shape.get("ill", 0), menu=shape.get("menu", 2), force=None)
        if shape.get("force") == "soc":
            # normal step = full, tangential = zero, then the correction = full: the SOC branch is reachable
            ctx.st["force"] = [(1.0, 0.0), (0.0, 0.0), (1.0, 0.0), (0.5, 0.0), (-0.5, 0.25)]
        P = PROBLEMS[shape["pb"]]
        n = P["n"]
        allk = shape["kinds"] != "fin"

        def val(name):
            """any double a user function may return: finite (|v| <= 1e6), and in 'all' shapes NaN, +-inf, +-1e300"""
            k = e.choose(6, "kind") if allk else 0
            if k == 0:
                return e.fresh_in(name, -1e6, 1e6)
            return [None, math.nan, INF, -INF, 1e300, -1e300][k] if not ctx.sym else \
                lift([None, math.nan, INF, -INF, 1e300, -1e300][k])
        log = []
        monitors = dict(iters=[], upd=[])
        cur = {"depth": 0}

        # user functions ---------------------------------------------------
        innerstate = {"done": False}

        def fun(x, *args):
            if inner and not innerstate["done"]:
                innerstate["done"] = True
                # a complete nested call on another problem, with its own (untaped) values
                saved_tape, ctx.tape = ctx.tape, None
                try:
                    M.main.minimize(lambda z: ctx.e.fresh_in("fi", -1e6, 1e6), ctx.arr([0.25, -0.5]),
                                    options=dict(maxfev=2, nb_points=3))
                finally:
                    ctx.tape = saved_tape
            if shape.get("fun_seq"):
                seq = shape["fun_seq"]
                k = len([r for r in log if r["t"] == "fun"])
                v = float(seq[k % len(seq)])
                if ctx.sym:
                    v = lift(v)
            else:
                v = val("f")
            log.append(dict(t="fun", x=pt(x), v=v, depth=cur["depth"]))
            return v

        def mkcon(j, m, form):
            def con(x, *args):
                if shape.get("con_seq"):
                    seq = shape["con_seq"]
                    kk = len([r for r in log if r["t"] == "con" and r["j"] == j])
                    vals = [float(seq[kk % len(seq)]) if not ctx.sym else lift(float(seq[kk % len(seq)])) for _ in range(m)]
                elif shape.get("con_const") is not None:
                    vals = [float(shape["con_const"]) if not ctx.sym else lift(float(shape["con_const"])) for _ in range(m)]
                else:
                    vals = [val(f"c{j}") for _ in range(m)]
                log.append(dict(t="con", j=j, x=pt(x), v=vals, depth=cur["depth"]))
                if m == 1 and form != "nlc":
                    return vals[0]
                return ctx.arr(vals)
            return con

        cbstate = {"calls": 0, "stopped": False}

        def cb_core(xk, fk):
            cbstate["calls"] += 1
            rec = dict(t="cb", x=pt(xk), fun=fk, depth=cur["depth"], stop=False)
            log.append(rec)
            if shape.get("scribble"):
                xk[...] = 1e6
            if e.choose(2, "cb-stop") == 1:
                rec["stop"] = True
                cbstate["stopped"] = True
                raise StopIteration

        cbk = shape["cb"]
        if cbk == "pos":
            def callback(xk):
                cb_core(xk, None)
        elif cbk == "kw":
            def callback(intermediate_result):
                cb_core(intermediate_result.x, intermediate_result.fun)
        elif cbk == "kwonly-kw":
            def callback(*, intermediate_result):
                cb_core(intermediate_result.x, intermediate_result.fun)
        elif cbk == "lambda-pos":
            callback = lambda xk: cb_core(xk, None)
        elif cbk == "obj-kw":
            class _CB:
                def __call__(self, intermediate_result):
                    cb_core(intermediate_result.x, intermediate_result.fun)
            callback = _CB()
        elif cbk == "partial-pos":
            import functools

            def _two(tag, xk):
                cb_core(xk, None)
            callback = functools.partial(_two, "tag")
        elif cbk == "partial-kw":
            import functools

            def _twok(tag, intermediate_result):
                cb_core(intermediate_result.x, intermediate_result.fun)
            callback = functools.partial(_twok, "tag")
        else:
            callback = None

        # problem statement in the user's terms ------------------------------
        bounds = None
        keep = {}
        if P.get("bounds") is not None:
            b = P["bounds"]
            if P.get("bounds_form") == "array":
                bounds = ctx.arr([[r[0], r[1]] for r in b])
                keep["bounds"] = (bounds, [[r[0], r[1]] for r in b])
            else:
                lbv, ubv = ctx.arr([r[0] for r in b]), ctx.arr([r[1] for r in b])
                bounds = M.Bounds(lbv, ubv)
                keep["bounds_lb"] = (lbv, [r[0] for r in b])
                keep["bounds_ub"] = (ubv, [r[1] for r in b])
        cons = []
        for q, (A, lb, ub) in enumerate(P.get("lin", [])):
            Aa, la, ua = ctx.arr(A), ctx.arr(lb), ctx.arr(ub)
            cons.append(M.LinearConstraint(Aa, la, ua))
            keep[f"lin{q}_A"] = (Aa, A)
            keep[f"lin{q}_lb"] = (la, lb)
            keep[f"lin{q}_ub"] = (ua, ub)
        for j, (m, lb, ub, form) in enumerate(P.get("nl", [])):
            if form == "nlc":
                cons.append(M.NonlinearConstraint(mkcon(j, m, form), ctx.arr(lb), ctx.arr(ub)))
            else:
                cons.append({"type": "ineq" if form == "dict-ineq" else "eq", "fun": mkcon(j, m, form)})
        bb = clean_bounds(P.get("bounds"))
        n_free = n if bb is None else sum(1 for r in bb if r[0] != r[1])
        npt = shape["npt"] or 2 * max(n_free, 0) + 1
        # nb_points is checked against the number of variables left after the fixed ones are removed
        npt = max(n_free + 1, min(npt, (n_free + 1) * (n_free + 2) // 2))
        options = dict(maxfev=shape["maxfev"], maxiter=shape["maxiter"], nb_points=npt,
                       radius_init=1.0, radius_final=0.25, scale=bool(P.get("scale")))
        if shape["hist"]:
            options.update(store_history=True, history_size=shape["hist"])
        else:
            options.update(store_history=True)
        target = None
        if shape["target"] == "inf":
            target = math.inf            # "stop at the first feasible point with a defined objective"
            options["target"] = target
        elif shape["target"]:
            target = e.fresh_in("target", -1e6, 1e6)
            options["target"] = target
        tol = 2.0 ** -20
        options["feasibility_tol"] = tol
        x0 = ctx.arr(P["x0"])
        saved = dict(x0=copy.deepcopy(P["x0"]), options=dict(options))

        # wrappers (monitors) ------------------------------------------------
        Pb = M.problem.Problem
        orig_call = Pb.__call__

        def call_wrapper(self_, x, penalty=0.0):
            cur["depth"] += 1
            rec = dict(t="enter", x=pt(x), depth=cur["depth"], pb=self_)
            log.append(rec)
            try:
                r = orig_call(self_, x, penalty)
            except Exception as ex:
                log.append(dict(t="leave", exc=type(ex).__name__, depth=cur["depth"]))
                cur["depth"] -= 1
                raise
            except BaseException:
                cur["depth"] -= 1
                raise
            log.append(dict(t="leave", ret=(r[0], list(r[1]), list(r[2])), depth=cur["depth"]))
            cur["depth"] -= 1
            return r

        M.patch(Pb, "__call__", call_wrapper)
        TR = M.framework.TrustRegion
        orig_step = TR.get_trust_region_step

        orig_geo = TR.get_geometry_step

        def geo_wrapper(self_, k_new, options_):
            r = orig_geo(self_, k_new, options_)
            log.append(dict(t="site", site="geo", depth=cur["depth"]))
            return r

        M.patch(TR, "get_geometry_step", geo_wrapper)

        def step_wrapper(self_, options_):
            log.append(dict(t="site", site="tr", depth=cur["depth"]))
            monitors["iters"].append(dict(radius=self_.radius, resolution=self_.resolution,
                                          penalty=self_.penalty, rhoend=options_["radius_final"],
                                          best=self_.best_index))
            return orig_step(self_, options_)

        M.patch(TR, "get_trust_region_step", step_wrapper)
        orig_shift = TR.shift_x_base

        def shift_wrapper(self_, options_):
            flags["shift"] = True
            return orig_shift(self_, options_)

        orig_soc = TR.get_second_order_correction_step

        def soc_wrapper(self_, step_, options_):
            r = orig_soc(self_, step_, options_)
            if any(flt(v) != 0.0 for v in r):
                flags["soc"] = True
                log.append(dict(t="site", site="soc", depth=cur["depth"]))
            return r

        flags = {}
        M.patch(TR, "get_second_order_correction_step", soc_wrapper)
        M.patch(TR, "shift_x_base", shift_wrapper)
        orig_enh = TR.enhance_resolution

        def enh_wrapper(self_, options_):
            before = self_.resolution
            orig_enh(self_, options_)
            monitors["upd"].append(dict(kind="enhance", before=before, after=self_.resolution,
                                        radius=self_.radius, rhoend=options_["radius_final"]))

        M.patch(TR, "enhance_resolution", enh_wrapper)
        MDL = M.models.Models
        orig_upd = MDL.update_interpolation

        def upd_wrapper(self_, k_new, x_new, fun_val, cub_val, ceq_val):
            last = [r for r in log if r["t"] == "leave" and r["depth"] == 1 and "ret" in r]
            lastx = [r for r in log if r["t"] == "enter" and r["depth"] == 1]
            monitors["upd"].append(dict(kind="interp", x=pt(x_new), f=fun_val, cub=list(cub_val), ceq=list(ceq_val),
                                        ev_x=lastx[-1]["x"] if lastx else None, ev_ret=last[-1]["ret"] if last else None))
            return orig_upd(self_, k_new, x_new, fun_val, cub_val, ceq_val)

        M.patch(MDL, "update_interpolation", upd_wrapper)
        orig_build = M.main._build_result
        final = {}

        def build_wrapper(pb, penalty, success, status, n_iter, options_):
            final.update(penalty=penalty, status_enum=status, n_iter=n_iter,
                         rhoend=options_.get("radius_final"), maxfev=options_.get("maxfev"))
            return orig_build(pb, penalty, success, status, n_iter, options_)

        M.patch(M.main, "_build_result", build_wrapper)
        orig_tr_init = TR.__init__
        frame = {}

        def tr_init(self_, pb, options_, constants):
            frame["tr"] = self_
            orig_tr_init(self_, pb, options_, constants)

        M.patch(TR, "__init__", tr_init)

        state_before = module_state(M)
        # the call -----------------------------------------------------------
        out = dict(shape=shape, log=log, monitors=monitors, final=final, frame=frame, tol=tol, target=target,
                   cbstate=cbstate, saved=saved, options=options, x0=x0, keep=keep)
        try:
            res = M.main.minimize(fun if P.get("fun", True) else None, x0, bounds=bounds, constraints=cons,
                                  callback=callback, options=options, **dict(shape.get("consts", {})))
            out["res"] = res
        except core.ReplayDiverged:
            raise
        except Exception as ex:
            import traceback
            out["exc"] = f"{type(ex).__name__}: {ex}"
            out["exc_type"] = type(ex).__name__
            tb = traceback.extract_tb(ex.__traceback__)
            where = [f for f in tb if "/cobyqa/" in f.filename]
            out["exc_where"] = f"{where[-1].filename.split('/cobyqa/')[-1]}:{where[-1].name}" if where else "?"
        finally:
            for obj, nm, orig in ((Pb, "__call__", orig_call), (TR, "get_trust_region_step", orig_step),
                                  (TR, "enhance_resolution", orig_enh), (M.main, "_build_result", orig_build),
                                  (TR, "__init__", orig_tr_init), (MDL, "update_interpolation", orig_upd),
                                  (TR, "get_second_order_correction_step", orig_soc),
                                  (TR, "get_geometry_step", orig_geo), (TR, "shift_x_base", orig_shift)):
                setattr(obj, nm, orig)
        out["soc_taken"] = bool(flags.get("soc"))
        out["base_shift"] = bool(flags.get("shift"))
        state_after = module_state(M)
        out["state_diff"] = sorted(k for k in set(state_before) | set(state_after)
                                   if state_before.get(k) != state_after.get(k))
        if frame.get("tr") is not None:
            tr = frame["tr"]
            try:
                out["end"] = dict(radius=tr.radius, resolution=tr.resolution, penalty=tr.penalty)
            except AttributeError:
                pass
        return out

    # -- evaluation log ---------------------------------------------------------
    def evaluations(self, shape, o):
        """Group the event log by Problem.__call__ invocations (depth 1)."""
        P = PROBLEMS[shape["pb"]]
        evs, outside = [], []
        curev = None
        for r in o["log"]:
            if r["t"] == "enter" and r["depth"] == 1:
                curev = dict(x_int=r["x"], fun=[], con=[], cb=[], ret=None, exc=None, nested=0)
                evs.append(curev)
            elif r["t"] == "enter":
                if curev is not None:
                    curev["nested"] += 1
            elif r["t"] == "leave" and r["depth"] == 1:
                curev["ret"] = r.get("ret")
                curev["exc"] = r.get("exc")
                curev = None
            elif r["t"] == "leave":
                pass
            elif r["t"] in ("fun", "con", "cb"):
                if curev is None or r["depth"] != 1:
                    outside.append(r)
                else:
                    curev[r["t"]].append(r)
        return evs, outside

    def user_point(self, P, x_int):
        """Expected user-space point of an internal point (harness' own formula)."""
        n = P["n"]
        b = clean_bounds(P.get("bounds"))
        lbs = [(-INF if b is None else b[i][0]) for i in range(n)]
        ubs = [(INF if b is None else b[i][1]) for i in range(n)]
        feasible = all(l <= u for l, u in zip(lbs, ubs))
        fixed = [feasible is not None and l == u for l, u in zip(lbs, ubs)]
        if not feasible:
            fixed = [l == u for l, u in zip(lbs, ubs)]
        free = [i for i in range(n) if not fixed[i]]
        scale = bool(P.get("scale")) and feasible and all(math.isfinite(lbs[i]) and math.isfinite(ubs[i]) for i in free)
        x = [0.0] * n
        for i in range(n):
            if fixed[i]:
                x[i] = lbs[i]
        if len(x_int) != len(free):
            return None
        for k, i in enumerate(free):
            v = x_int[k]
            if scale:
                v = v * (0.5 * (ubs[i] - lbs[i])) + 0.5 * (ubs[i] + lbs[i])
            x[i] = v
        if feasible:
            x = [min(max(v, l), u) for v, l, u in zip(x, lbs, ubs)]
        return x

    def true_violation(self, P, x_user, con_vals):
        """max(0, every excess) at x_user from the user's own statement.  con_vals[j] = logged values."""
        ex = [0.0]
        b = clean_bounds(P.get("bounds"))
        if b is not None:
            for i in range(P["n"]):
                ex += interval_excess(x_user[i], float(b[i][0]), float(b[i][1]))
        for (A, lb, ub) in P.get("lin", []):
            for row, l, u in zip(A, lb, ub):
                ax = sum(a * xi for a, xi in zip(row, x_user))
                ex += interval_excess(ax, float(l), float(u))
        for j, (m, lb, ub, form) in enumerate(P.get("nl", [])):
            vals = con_vals.get(j)
            if vals is None:
                return None
            for v, l, u in zip(vals, lb, ub):
                ex += interval_excess(v, float(l), float(u))
        return vmax(ex)

    # -- the oracles ------------------------------------------------------------
    def judge(self, ctx, shape, o):
        P = PROBLEMS[shape["pb"]]
        n = P["n"]
        has_fun = P.get("fun", True)
        nl = P.get("nl", [])
        claims, goals = [], []
        sig = shape["pb"] + (":target=inf" if shape["target"] == "inf" else "")

        def C(prop, clause, cond, s=None):
            claims.append(Claim(prop, "ctl:" + clause, cond, sig=s or sig))

        evs, outside = self.evaluations(shape, o)
        N = len(evs)
        res = o.get("res")
        b = clean_bounds(P.get("bounds"))
        feasible_bounds = b is None or all(r[0] <= r[1] for r in b)
        all_fixed = b is not None and feasible_bounds and all(r[0] == r[1] for r in b)

        # ---- C08: minimize returns ------------------------------------------
        C("C08", "no_exception_escapes", "exc" not in o,
          s=f"{sig}:{o.get('exc_type', '')}@{o.get('exc_where', '')}")
        for k, ev in enumerate(evs):
            if ev["ret"] is not None:
                f, cu, ce = ev["ret"]
                vals = [f] + list(cu) + list(ce)
                C("C08", "values_handed_to_solver_are_finite_and_barrier_clipped",
                  all_of(b_and(isfin(v), lift(v) <= BARRIER, lift(v) >= -BARRIER) if isfin(v) else False for v in vals))
        if shape["cb"] != "none":
            C("C20", "callback_invoked_in_the_convention_its_signature_asks_for", o.get("exc_type") != "TypeError",
              s=f"{sig}:{shape['cb']}")
        if res is None:
            goals.append("exception")
            # still judge the call discipline on what happened before the exception
            self._judge_calls(C, P, evs, outside, has_fun, nl)
            return claims, goals
        goals.append(f"status_{res.status}")
        if o.get("soc_taken"):
            goals.append("second_order_correction")
        if o.get("base_shift"):
            goals.append("base_shift")

        # ---- ground truth per evaluation -----------------------------------
        fvals, vvals, xus = [], [], []
        last_con = {}
        for k, ev in enumerate(evs):
            xu = ev["fun"][0]["x"] if ev["fun"] else self.user_point(P, ev["x_int"])
            xus.append(xu)
            fvals.append(ev["fun"][0]["v"] if ev["fun"] else 0.0)
            cv = {}
            for j in range(len(nl)):
                mine = [r for r in ev["con"] if r["j"] == j]
                if mine:
                    cv[j] = mine[0]["v"]
                    last_con[j] = (mine[0]["x"], mine[0]["v"])
                elif j in last_con and xu is not None and last_con[j][0] == xu:
                    cv[j] = last_con[j][1]
            vvals.append(self.true_violation(P, xu, cv) if xu is not None else None)
        o["_truth"] = dict(f=fvals, v=vvals, x=xus)

        self._judge_calls(C, P, evs, outside, has_fun, nl)
        tol = o["tol"]

        # ---- C06: every evaluation is a counted one ---------------------------
        C("C06", "user_functions_only_called_in_counted_evaluations", res.nfev == N, s=f"{sig}:nfev={res.nfev}:N={N}")
        # ---- C05 budgets -----------------------------------------------------
        C("C05", "evaluations_within_maxfev", N <= shape["maxfev"])
        C("C05", "nfev_is_number_of_evaluations", res.nfev == N, s=f"{sig}:fun={'y' if has_fun else 'none'}")
        C("C05", "nit_within_maxiter", res.nit <= shape["maxiter"])
        hs = shape["hist"] or sys.maxsize
        keep = min(N, hs)
        fh = list(res.get("fun_history", []))
        mh = list(res.get("maxcv_history", []))
        C("C05", "history_length", len(fh) == keep and len(mh) == keep)
        if len(fh) == keep and len(mh) == keep and all(v is not None for v in vvals):
            C("C05", "fun_history_is_objective_values_in_order",
              all_of(same_value(fh[i], fvals[N - keep + i]) for i in range(keep)))
            C("C05", "maxcv_history_is_true_violations_in_order",
              all_of(close(mh[i], vvals[N - keep + i], 1e-9) for i in range(keep)))

        # ---- C02 returned values are true values at returned x ----------------
        rx = pt(res.x)
        if N > 0 and all(v is not None for v in vvals):
            match = [k for k in range(N) if xus[k] is not None and len(xus[k]) == len(rx)
                     and all(abs(a - c) <= 1e-12 * max(1.0, abs(c)) for a, c in zip(rx, xus[k]))]
            C("C02", "returned_x_was_evaluated", len(match) > 0)
            if match:
                C("C02", "returned_fun_and_maxcv_are_the_values_at_returned_x",
                  any_of(b_and(same_value(res.fun, fvals[k]), close(res.maxcv, vvals[k], 1e-9)) for k in match),
                  s=f"{sig}:scale={bool(P.get('scale'))}")
                # ---- C03 end to end ------------------------------------------
                if len(match) == 1 and not shape["hist"]:
                    pen = o["final"].get("penalty", 0.0)
                    selection_rules(lambda cl, cond: C("C03", "e2e:" + cl, cond),
                                    [lift(f) for f in fvals], [lift(v) for v in vvals], lift(pen), lift(tol),
                                    match[0], list(range(N)), margin=1e-12)
        # ---- C01 (observable points) ------------------------------------------
        if feasible_bounds and b is not None:
            pts = [r["x"] for r in o["log"] if r["t"] in ("fun", "con", "cb")] + [rx]
            C("C01", "every_observable_point_within_bounds",
              all(len(p) == n and all(b[i][0] <= p[i] <= b[i][1] for i in range(n)) for p in pts))
        # ---- C07 status / message / success --------------------------------------
        st = res.status
        C("C07", "status_is_documented_code_with_its_message",
          st in STATUS_MSG and res.message == STATUS_MSG.get(st))
        rf, rv = res.fun, res.maxcv
        cbs = [r for r in o["log"] if r["t"] == "cb"]
        if st == 0 and "end" in o:
            C("C07", "status0_only_when_final_radius_reached",
              same_value(o["end"]["resolution"], o["final"].get("rhoend", math.nan)))
        if st == 1:
            C("C07", "status1_returned_point_meets_target_and_is_feasible",
              b_and(lift(rf) <= o["target"] if o["target"] is not None else lift(rf) <= -INF, lift(rv) <= tol))
        if st == 2:
            C("C07", "status2_only_when_all_variables_fixed", all_fixed)
        if st == 3:
            C("C07", "status3_only_when_callback_asked_to_stop", bool(cbs) and cbs[-1]["stop"])
        if st == 4:
            C("C07", "status4_only_for_feasibility_problem_with_feasible_point",
              b_and(not has_fun, lift(rv) <= tol))
        if st == 5:
            C("C07", "status5_only_when_nfev_equals_maxfev", res.nfev == shape["maxfev"], s=f"{sig}:N={N}")
        if st == 6:
            C("C07", "status6_only_when_nit_equals_maxiter", res.nit == shape["maxiter"],
              s=f"{sig}:nit={res.nit}")
        if st == -1:
            C("C07", "statusm1_only_for_inconsistent_bounds", not feasible_bounds)
        ok_vals = b_and(isfin(rf), isfin(rv))
        succ = res.success if isinstance(res.success, core.SymBool) else bool(res.success)
        C("C07", "success_only_with_status_0_to_4_and_finite_feasible_values",
          b_implies(succ, b_and(st in (0, 1, 2, 3, 4), ok_vals, True if st in (1, 4) else lift(rv) <= tol)))
        C("C08", "nan_result_never_successful",
          b_implies(succ, b_and(not isnan(rf), not isnan(rv))))
        # ---- C09 stopping requests -------------------------------------------------
        if all(v is not None for v in vvals):
            tgt = o["target"] if o["target"] is not None else -INF      # the documented default

            def t_target(k):
                # (without an objective function the objective is the constant 0, which is what the result reports:
                # a supplied target >= 0 is then a request that every feasible point satisfies, next to the
                # feasibility request)
                return b_and(lift(fvals[k]) <= tgt, lift(vvals[k]) <= tol)

            def t_feas(k):
                return (not has_fun) and (lift(vvals[k]) <= tol)

            def t_cb(k):
                return any(r["stop"] for r in evs[k]["cb"])

            C("C09", "no_evaluation_after_a_satisfied_request",
              all_of(b_not(b_or(t_cb(k), t_target(k), t_feas(k))) for k in range(N - 1)))
            if N > 0:
                k = N - 1
                anyreq = b_or(t_cb(k), t_target(k), t_feas(k))
                if feasible_bounds and not all_fixed:
                    # (inconsistent bounds / all variables fixed: the only evaluation is made while the early
                    # result is assembled and the documented status -1 / 2 takes precedence)
                    C("C09", "request_at_last_evaluation_is_reported",
                      b_implies(anyreq, st in (1, 3, 4)), s=f"{sig}:st={st}")
                C("C09", "status_1_3_4_only_when_request_occurred_at_last_evaluation",
                  b_and(b_implies(st == 3, t_cb(k)), b_implies(st == 1, t_target(k)), b_implies(st == 4, t_feas(k))),
                  s=f"{sig}:st={st}")
                C("C09", "returned_point_satisfies_the_request_that_ended_the_run",
                  b_and(b_implies(st == 1, b_and(lift(rf) <= tgt, lift(rv) <= tol)),
                        b_implies(st == 4, lift(rv) <= tol)), s=f"{sig}:st={st}")
                if st in (1, 3, 4):
                    goals.append("stop_at_eval_%d" % min(N, 4))
                    site = "init"
                    for r_ in o["log"]:
                        if r_["t"] == "site":
                            site = r_["site"]
                    goals.append("stop_site_" + site)
                    C("C09", "nfev_is_index_of_triggering_evaluation", res.nfev == N,
                      s=f"{sig}:fun={'y' if has_fun else 'none'}")
            else:
                C("C09", "status_1_3_4_only_when_request_occurred_at_last_evaluation", st not in (1, 3, 4))
        # ---- C20 callback -------------------------------------------------------------
        if shape["cb"] != "none":
            for k, ev in enumerate(evs):
                C("C20", "callback_once_per_evaluation", len(ev["cb"]) == 1 or ev["exc"] not in (None, "CallbackSuccess"),
                  s=f"{sig}:calls={len(ev['cb'])}")
                for r in ev["cb"]:
                    C("C20", "callback_point_in_user_space_within_bounds",
                      len(r["x"]) == n and (b is None or not feasible_bounds or
                                            all(b[i][0] <= r["x"][i] <= b[i][1] for i in range(n))))
                    if shape["cb"].endswith("kw"):
                        # the fun passed along is the objective value of that point
                        km = [kk for kk in range(k + 1) if xus[kk] == r["x"]]
                        C("C20", "callback_fun_is_value_of_that_point",
                          any_of(same_value(r["fun"], fvals[kk]) for kk in km) if km else False)
            if cbs and cbs[-1]["stop"]:
                goals.append("callback_stopped")
                last = cbs[-1]
                C("C20", "stop_returns_the_point_passed_to_the_callback",
                  b_and(all(abs(a - c) <= 1e-12 * max(1.0, abs(c)) for a, c in zip(rx, last["x"])),
                        same_value(last["fun"], rf) if shape["cb"].endswith("kw") else True))
                C("C20", "stop_at_kth_call_gives_nfev_k_status_3",
                  res.nfev == o["cbstate"]["calls"] and (st == 3 or not feasible_bounds or all_fixed),
                  s=f"{sig}:fun={'y' if has_fun else 'none'}")
        # ---- C18 monitors ---------------------------------------------------------------
        prev_res = None
        for it in o["monitors"]["iters"]:
            C("C18", "radius_final_le_resolution_le_radius",
              b_and(lift(it["rhoend"]) <= it["resolution"], lift(it["resolution"]) <= it["radius"]))
            C("C18", "penalty_finite_nonnegative", b_and(isfin(it["penalty"]), lift(it["penalty"]) >= 0.0))
            if prev_res is not None:
                C("C18", "resolution_never_increases", lift(it["resolution"]) <= prev_res)
            prev_res = it["resolution"]
        for u in o["monitors"]["upd"]:
            if u["kind"] == "interp":
                goals.append("interpolation_update")
                ok = u["ev_x"] is not None and u["ev_ret"] is not None and len(u["ev_x"]) == len(u["x"]) and \
                    all(abs(a - c) <= 1e-12 * max(1.0, abs(c)) for a, c in zip(u["x"], u["ev_x"]))
                C("C12", "value_recorded_for_a_point_was_returned_by_the_evaluation_of_that_point",
                  b_and(ok, same_value(u["f"], u["ev_ret"][0]) if ok else False,
                        all_of(same_value(a, c) for a, c in zip(u["cub"], u["ev_ret"][1])) if ok else False,
                        all_of(same_value(a, c) for a, c in zip(u["ceq"], u["ev_ret"][2])) if ok else False))
                continue
            C("C18", "enhance_resolution_decreases_and_stays_above_final",
              b_and(lift(u["after"]) < u["before"], lift(u["after"]) >= u["rhoend"], lift(u["radius"]) >= u["after"]))
        # ---- C11 repeated / nested call gives the same run --------------------------------------
        if "second" in o:
            o2 = o["second"]
            goals.append("nested_call" if shape.get("nested") else "repeated_call")
            tag = "nested" if shape.get("nested") else "repeated"
            C("C11", f"{tag}_call_consumes_the_same_values_and_choices", not o.get("tape_diverged"))
            r2 = o2.get("res")
            C("C11", f"{tag}_call_returns", r2 is not None)
            if r2 is not None:
                ev2, out2 = self.evaluations(shape, o2)
                same_pts = len(ev2) == N and all(a["x_int"] == b_["x_int"] for a, b_ in zip(evs, ev2))
                C("C11", f"{tag}_call_evaluates_the_same_points", same_pts)
                C("C11", f"{tag}_call_gives_identical_result",
                  b_and(r2.status == res.status, r2.nfev == res.nfev, r2.nit == res.nit, pt(r2.x) == rx,
                        same_value(r2.fun, res.fun), same_value(r2.maxcv, res.maxcv),
                        r2.message == res.message))
        # ---- C11 arguments untouched ------------------------------------------------------
        def same_nested(arr, ref):
            got = _np.asarray(arr, dtype=object).tolist()

            def eq(a, c):
                if isinstance(a, list):
                    return isinstance(c, list) and len(a) == len(c) and all(eq(u, v) for u, v in zip(a, c))
                a, c = flt(a), float(c)
                return (math.isnan(a) and math.isnan(c)) or a == c
            return eq(got, ref)

        for nm, (arr, ref) in o.get("keep", {}).items():
            C("C11", "argument_arrays_untouched", same_nested(arr, ref), s=f"{sig}:{nm}")
        C("C11", "no_module_or_class_level_state_survives_the_call", not o.get("state_diff"),
          s=f"{sig}:{','.join(o.get('state_diff', []))[:80]}")
        C("C11", "x0_untouched", pt(o["x0"]) == o["saved"]["x0"])
        C("C11", "options_dict_untouched",
          set(o["options"]) == set(o["saved"]["options"]) and
          all(o["options"][k] is o["saved"]["options"][k] or o["options"][k] == o["saved"]["options"][k]
              for k in o["saved"]["options"] if not isinstance(o["options"][k], SymFloat)))
        return claims, goals

    def _judge_calls(self, C, P, evs, outside, has_fun, nl):
        """C06: call discipline."""
        sig = P and [k for k, v in PROBLEMS.items() if v is P][0]
        C("C06", "no_user_function_called_outside_an_evaluation", len([r for r in outside if r["t"] != "cb"]) == 0,
          s=f"{sig}:{sorted({r['t'] for r in outside})}")
        last_arg = {}
        for ev in evs:
            xu = self.user_point(P, ev["x_int"])
            if ev["nested"]:
                C("C06", "no_nested_evaluation", False)
            if has_fun:
                C("C06", "objective_called_exactly_once_per_evaluation", len(ev["fun"]) == 1,
                  s=f"{sig}:calls={len(ev['fun'])}")
            for j in range(len(nl)):
                mine = [r for r in ev["con"] if r["j"] == j]
                C("C06", "constraint_called_at_most_once_per_evaluation", len(mine) <= 1,
                  s=f"{sig}:calls={min(len(mine), 3)}")
                if not mine:
                    C("C06", "constraint_call_omitted_only_for_same_point", last_arg.get(j) == xu and xu is not None)
                for r in mine:
                    last_arg[j] = r["x"]
            if xu is not None:
                for r in ev["fun"] + ev["con"]:
                    C("C06", "user_function_called_at_the_evaluated_point_in_user_variables",
                      len(r["x"]) == len(xu) and all(abs(a - c) <= 1e-12 * max(1.0, abs(c)) for a, c in zip(r["x"], xu)),
                      s=f"{sig}:{r['t']}")

    def required_goals(self, tier, prop):
        g = ["status_3", "status_5", "status_6"]
        if prop in ("C07", "C08"):
            g += ["status_-2"]
        if prop in ("C07", "C18"):
            g += ["status_0"]
        if prop in ("C09", "C07"):
            g += ["callback_stopped", "status_1", "status_4"]
        if prop == "C09":
            g += ["stop_site_init", "stop_site_tr", "stop_site_soc", "stop_site_geo"]
        if prop == "C20":
            g += ["callback_stopped"]
        if prop == "C11":
            g += ["repeated_call", "nested_call"]
        if prop == "C12":
            g += ["interpolation_update", "second_order_correction"]
        if prop in ("C02", "C12"):
            g += ["base_shift"]
        return g

    def digest(self, ctx, shape, o):
        if "res" not in o:
            return ["exc", o.get("exc_type")]
        res = o["res"]
        evs, outside = self.evaluations(shape, o)
        return [res.status, res.nfev, res.nit, res.success, len(evs), len(outside), pt(res.x), res.fun, res.maxcv]


HARNESS = Ctl()
