"""Harness registry: which harness families serve which property."""
import importlib

_NAMES = ["filt", "opt", "ctl", "pb", "tr", "sub", "mod", "eqv", "glue"]
HARNESSES = {}
for _n in _NAMES:
    _m = importlib.import_module(f"harness.{_n}")
    HARNESSES[_m.HARNESS.name] = _m.HARNESS

# property -> harness names whose claims include that property
SERVES = {}
for _h in HARNESSES.values():
    for _p in _h.serves:
        SERVES.setdefault(_p, []).append(_h.name)
