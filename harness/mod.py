"""H-MOD: quadratic models (C12, C13, C14).

Real code run symbolically: Interpolation.__init__, build_system, Quadratic
(__init__, __call__, grad, hess, hess_prod, curv, update, shift_x_base,
solve_systems, _get_model), Models (__init__, update_interpolation,
shift_x_base, reset_models, determinants, fun/cub/ceq views) with the REAL
scipy eigh on concrete geometry.  Symbolic: every function value recorded at
every interpolation point of every step of a seeded history (C12, C13) and the
candidate point of the determinant ratios (C14).  The reference for C13/C14 is
computed by the harness in exact rational arithmetic (fractions.Fraction).
"""
import math
import random
from fractions import Fraction as Fr

import numpy as _np
import z3

from sx import core, symnp
from sx.core import FIN, lift, b_and, b_or, b_not, b_implies, SymFloat
from sx.runner import Claim
from .base import Harness, all_of, any_of, close

INF = math.inf
TOL = 1e-7          # |values| <= 1, condition numbers <= 1e6: eps * cond * 1e3 is far below


# ---------------------------------------------------------------------------
# exact rational linear algebra
# ---------------------------------------------------------------------------

def fr_solve(A, B):
    """Solve A X = B exactly (A: N x N, B: N x M lists of Fractions). Returns X or None if singular."""
    N = len(A)
    M = len(B[0])
    a = [list(A[i]) + list(B[i]) for i in range(N)]
    for c in range(N):
        p = None
        for r in range(c, N):
            if a[r][c] != 0:
                p = r
                break
        if p is None:
            return None
        a[c], a[p] = a[p], a[c]
        inv = 1 / a[c][c]
        a[c] = [v * inv for v in a[c]]
        for r in range(N):
            if r != c and a[r][c] != 0:
                f = a[r][c]
                a[r] = [v - f * w for v, w in zip(a[r], a[c])]
    return [row[N:] for row in a]


def fr_det(A):
    N = len(A)
    if N == 0:
        return Fr(1)
    a = [list(r) for r in A]
    det = Fr(1)
    for c in range(N):
        p = None
        for r in range(c, N):
            if a[r][c] != 0:
                p = r
                break
        if p is None:
            return Fr(0)
        if p != c:
            a[c], a[p] = a[p], a[c]
            det = -det
        det *= a[c][c]
        inv = 1 / a[c][c]
        for r in range(c + 1, N):
            if a[r][c] != 0:
                f = a[r][c] * inv
                a[r] = [v - f * w for v, w in zip(a[r], a[c])]
    return det


def kkt(D):
    """Theoretical interpolation matrix W for displacement vectors D (list of npt vectors of Fractions)."""
    npt = len(D)
    n = len(D[0])
    N = npt + n + 1
    W = [[Fr(0)] * N for _ in range(N)]
    for i in range(npt):
        for j in range(npt):
            dot = sum(D[i][t] * D[j][t] for t in range(n))
            W[i][j] = dot * dot / 2
        W[i][npt] = W[npt][i] = Fr(1)
        for t in range(n):
            W[i][npt + 1 + t] = W[npt + 1 + t][i] = D[i][t]
    return W


class RefQuad:
    """explicit quadratic c + g.x + x'Hx/2 about the origin with SymFloat-linear coefficients"""

    def __init__(self, n):
        self.n = n
        self.c = lift(0.0)
        self.g = [lift(0.0)] * n
        self.H = [[lift(0.0)] * n for _ in range(n)]

    def add_lfn(self, pts, base, vals):
        """add the least-Frobenius-norm interpolant of `vals` on absolute points `pts` (Fractions)"""
        n, npt = self.n, len(pts)
        D = [[p[t] - base[t] for t in range(n)] for p in pts]
        W = kkt(D)
        N = npt + n + 1
        rhs = [[Fr(1) if i == j else Fr(0) for j in range(npt)] for i in range(N)]
        Z = fr_solve(W, rhs)
        if Z is None:
            raise core.EngineError("reference: singular interpolation set")

        def comb(row):
            s = lift(0.0)
            for j in range(npt):
                if row[j] != 0:
                    s = s + lift(row[j]) * vals[j]
            return s
        lam = [comb(Z[k]) for k in range(npt)]
        c = comb(Z[npt])
        g = [comb(Z[npt + 1 + t]) for t in range(n)]
        H = [[lift(0.0)] * n for _ in range(n)]
        for k in range(npt):
            for a in range(n):
                for b in range(n):
                    co = D[k][a] * D[k][b]
                    if co != 0:
                        H[a][b] = H[a][b] + lift(co) * lam[k]
        # re-centre at the origin: q(x) = c + g.(x-b) + (x-b)'H(x-b)/2
        Hb = [sum((H[a][t] * lift(base[t]) for t in range(n)), lift(0.0)) for a in range(n)]
        c0 = c - sum((g[t] * lift(base[t]) for t in range(n)), lift(0.0)) \
            + 0.5 * sum((lift(base[a]) * Hb[a] for a in range(n)), lift(0.0))
        g0 = [g[a] - Hb[a] for a in range(n)]
        self.c = self.c + c0
        self.g = [self.g[a] + g0[a] for a in range(n)]
        self.H = [[self.H[a][b] + H[a][b] for b in range(n)] for a in range(n)]

    def __call__(self, x):
        n = self.n
        Hx = [sum((self.H[a][t] * lift(x[t]) for t in range(n)), lift(0.0)) for a in range(n)]
        return self.c + sum((self.g[t] * lift(x[t]) for t in range(n)), lift(0.0)) \
            + 0.5 * sum((lift(x[a]) * Hx[a] for a in range(n)), lift(0.0))

    def grad(self, x):
        n = self.n
        return [self.g[a] + sum((self.H[a][t] * lift(x[t]) for t in range(n)), lift(0.0)) for a in range(n)]


def cond_of(pts, base):
    n = len(base)
    D = _np.array([[float(p[t] - base[t]) for t in range(n)] for p in pts])
    sc = max(_np.linalg.norm(D, axis=1).max(), 1e-300)
    Ds = D / sc
    npt = len(pts)
    N = npt + n + 1
    W = _np.zeros((N, N))
    W[:npt, :npt] = 0.5 * (Ds @ Ds.T) ** 2
    W[:npt, npt] = W[npt, :npt] = 1.0
    W[:npt, npt + 1:] = Ds
    W[npt + 1:, :npt] = Ds.T
    ev = _np.abs(_np.linalg.eigvalsh(W))
    return ev.max() / max(ev.min(), 1e-300)


class FakePb:
    def __init__(self, ctx, n, x0, m_ub, m_eq, vals):
        np = ctx.np
        self.n = n
        self.x0 = ctx.arr(x0)

        class B:
            pass
        self.bounds = B()
        self.bounds.xl = ctx.arr([-INF] * n)
        self.bounds.xu = ctx.arr([INF] * n)
        self.is_feasibility = False
        self.fun_last = math.nan           # (no target request in this harness)
        self._vals = vals
        self._ctx = ctx
        self.m_ub, self.m_eq = m_ub, m_eq

    def __call__(self, x, penalty=0.0):
        f, cu, ce = self._vals()
        return f, self._ctx.arr(cu) if cu else self._ctx.np.zeros(0), self._ctx.arr(ce) if ce else self._ctx.np.zeros(0)

    def maxcv(self, x, cub=None, ceq=None):
        return 1.0


class Mod(Harness):
    name = "mod"
    serves = ("C12", "C13", "C14", "C11")
    functions = ("cobyqa/models.py:Interpolation.__init__", "cobyqa/models.py:build_system",
                 "cobyqa/models.py:Quadratic.__init__", "cobyqa/models.py:Quadratic.update",
                 "cobyqa/models.py:Quadratic.shift_x_base", "cobyqa/models.py:Quadratic.solve_systems",
                 "cobyqa/models.py:Models.__init__", "cobyqa/models.py:Models.update_interpolation",
                 "cobyqa/models.py:Models.shift_x_base", "cobyqa/models.py:Models.reset_models",
                 "cobyqa/models.py:Models.determinants")
    stubs = ("the problem is a stand-in object that hands out symbolic values; scipy.linalg.eigh is the real LAPACK routine on the concrete system matrix",)
    assumptions = ("interpolation geometry is concrete: seeded histories of replacements / base shifts / resets that keep the scaled system's condition number <= 1e6",
                   "recorded values range over [-1, 1]; tolerance 1e-7 (>> eps * cond * size for these sets)",
                   "reference models / determinants are computed by the harness in exact rational arithmetic (fractions.Fraction)")

    def engine_opts(self, shape):
        if shape["kind"] == "det":
            return dict(nlsat=True, timeout_ms=20000, assert_timeout_ms=60000, task_paths=5, first_task_paths=5, nice=False)
        return dict(timeout_ms=20000, assert_timeout_ms=60000)

    def shapes(self, tier, prop=None):
        S = []
        ns = [(1, 2), (1, 3), (2, 3), (2, 4), (2, 5), (2, 6)]
        if tier == "thorough":
            ns += [(3, 4), (3, 5), (3, 7)]      # (3, 10): 60-s assertion time-outs on 14-step histories, dropped
        seeds = (1, 2) if tier == "quick" else (1, 2, 3, 4)
        L = 6 if tier == "quick" else 10
        if prop in (None, "C12", "C13"):
            for (n, npt) in ns:
                for sd in seeds:
                    S.append(dict(kind="hist", n=n, npt=npt, seed=sd, length=L, m_ub=1 if sd % 2 else 0, m_eq=1 if sd % 3 == 0 else 0))
        if prop in (None, "C11"):
            S.append(dict(kind="interleave", n=2, npt=5, seed=1, length=6))
            S.append(dict(kind="interleave", n=1, npt=3, seed=2, length=6))
            if tier == "thorough":
                S.append(dict(kind="interleave", n=2, npt=6, seed=3, length=10))
        if prop in (None, "C14"):
            for (n, npt) in ns:
                if tier == "quick" and npt >= 6:
                    continue
                for sd in (seeds[:1] if tier == "quick" else seeds[:3]):
                    S.append(dict(kind="det", n=n, npt=npt, seed=sd, length=3))
        return S

    # ------------------------------------------------------------------
    def _history(self, shape, x0, pts0):
        """seeded list of operations keeping the set well conditioned"""
        rng = random.Random(1000 * shape["seed"] + 17 * shape["n"] + shape["npt"])
        n, npt = shape["n"], shape["npt"]
        pts = [list(p) for p in pts0]
        base = list(x0)
        ops = []
        for it in range(shape["length"]):
            r = rng.random()
            if r < 0.18 and it > 0:
                kk = rng.randrange(npt)
                ops.append(("shift", kk))
                base = list(pts[kk])
                continue
            if r < 0.28 and it > 0:
                ops.append(("reset",))
                continue
            if r < 0.45 or (shape["kind"] == "det" and it == shape["length"] - 1):
                # replace a point by a very close one (same conditioning, different system)
                done = False
                for k in rng.sample(range(npt), npt):
                    for t in range(n):
                        if abs(pts[k][t] - base[t]) >= Fr(1, 2):
                            x_new = list(pts[k])
                            x_new[t] = x_new[t] + Fr(1, 2 ** 18)
                            pts[k] = x_new
                            ops.append(("upd", k, x_new))
                            done = True
                            break
                    if done:
                        break
                if done:
                    continue
            for attempt in range(60):
                k = rng.randrange(npt)
                x_new = [Fr(round((float(base[t]) + rng.uniform(-1.5, 1.5)) * 64), 64) for t in range(n)]
                cand = [list(p) for p in pts]
                cand[k] = x_new
                if cond_of(cand, base) <= 1e5:
                    pts = cand
                    ops.append(("upd", k, x_new))
                    break
            else:
                ops.append(("reset",))
        return ops

    def run(self, ctx, shape):
        if shape["kind"] == "interleave":
            return self._interleave(ctx, shape)
        return self._run(ctx, shape, [Fr(1, 4), Fr(-1, 2), Fr(3, 8)][:shape["n"]])

    def _interleave(self, ctx, shape):
        """two interpolation sets driven alternately (the scenario of the 1.1.3 module-level cache bug)"""
        e, M, np = ctx.e, ctx.M, ctx.np
        MD = M.models
        n, npt = shape["n"], shape["npt"]
        sets = []
        for idx, x0 in enumerate(([Fr(1, 4), Fr(-1, 2)][:n], [Fr(-3, 2), Fr(2, 1)][:n])):
            rec = []

            def fresh_vals(rec=rec, idx=idx):
                f = e.fresh_in(f"f{idx}", -1.0, 1.0)
                rec.append(f)
                return f, [], []
            pb = FakePb(ctx, n, [float(v) for v in x0], 0, 0, fresh_vals)
            options = {"debug": False, "radius_init": 1.0 + idx, "radius_final": 1e-6, "nb_points": npt,
                       "maxfev": 10 ** 6, "target": -INF, "feasibility_tol": 1e-8}
            models = MD.Models(pb, options, 0.0)
            it = models.interpolation
            pts = [[Fr(float(v)) for v in _np.asarray(it.point(k), dtype=object)] for k in range(npt)]
            sets.append(dict(models=models, pts=pts, vals=list(rec), x0=x0, fresh=fresh_vals,
                             ops=self._history(dict(shape, seed=shape["seed"] + 10 * idx, kind="hist"), x0, pts)))
        checks = []

        def snap(tag):
            for s_ in sets:
                for k in range(npt):
                    checks.append((tag, s_["models"].fun(ctx.arr([float(v) for v in s_["pts"][k]])), s_["vals"][k]))
        snap("initial")
        for step in range(shape["length"]):
            for s_ in sets:
                op = s_["ops"][step] if step < len(s_["ops"]) else ("reset",)
                if op[0] == "upd":
                    _, k, x_new = op
                    f, _, _ = s_["fresh"]()
                    s_["models"].update_interpolation(k, ctx.arr([float(v) for v in x_new]), f, np.zeros(0), np.zeros(0))
                    s_["pts"][k] = list(x_new)
                    s_["vals"][k] = f
                elif op[0] == "shift":
                    s_["models"].shift_x_base(np.copy(ctx.arr([float(v) for v in s_["pts"][op[1]]])), {"debug": False})
                else:
                    s_["models"].reset_models()
                snap(f"step{step}")
        return dict(shape=shape, inter=checks)

    def _run(self, ctx, shape, x0):
        e, M, np = ctx.e, ctx.M, ctx.np
        MD = M.models
        n, npt = shape["n"], shape["npt"]
        m_ub, m_eq = shape.get("m_ub", 0), shape.get("m_eq", 0)
        cnt = [0]

        def fresh_vals():
            cnt[0] += 1
            f = e.fresh_in(f"f{cnt[0]}", -1.0, 1.0)
            cu = [e.fresh_in(f"u{cnt[0]}", -1.0, 1.0) for _ in range(m_ub)]
            ce = [e.fresh_in(f"q{cnt[0]}", -1.0, 1.0) for _ in range(m_eq)]
            rec.append((f, cu, ce))
            return f, cu, ce

        rec = []
        pb = FakePb(ctx, n, [float(v) for v in x0], m_ub, m_eq, fresh_vals)
        options = {"debug": False, "radius_init": 1.0, "radius_final": 1e-6, "nb_points": npt, "maxfev": 10 ** 6,
                   "target": -INF, "feasibility_tol": 1e-8}
        models = MD.Models(pb, options, 0.0)
        it = models.interpolation
        pts = [[Fr(float(v)) for v in _np.asarray(it.point(k), dtype=object)] for k in range(npt)]
        vals = [rec[k] for k in range(npt)]
        out = dict(shape=shape, checks=[], models=models, x0=x0)
        nmod = 1 + m_ub + m_eq

        def valvec(j):
            """values of model j (0 objective, then cub, then ceq) at the current points"""
            res = []
            for k in range(npt):
                f, cu, ce = vals[k]
                res.append(([f] + cu + ce)[j])
            return res

        def code_model(j):
            if j == 0:
                return (lambda x: models.fun(x)), (lambda x: models.fun_grad(x)), (lambda: models.fun_hess()), \
                    (lambda v: models.fun_hess_prod(v)), (lambda v: models.fun_curv(v))
            if j <= m_ub:
                i = j - 1
                return (lambda x: models.cub(x)[i]), (lambda x: models.cub_grad(x)[i]), (lambda: models.cub_hess()[i]), \
                    (lambda v: models.cub_hess_prod(v)[i]), (lambda v: models.cub_curv(v)[i])
            i = j - 1 - m_ub
            return (lambda x: models.ceq(x)[i]), (lambda x: models.ceq_grad(x)[i]), (lambda: models.ceq_hess()[i]), \
                (lambda v: models.ceq_hess_prod(v)[i]), (lambda v: models.ceq_curv(v)[i])

        refs = [RefQuad(n) for _ in range(nmod)]
        base0 = list(x0)
        if shape["kind"] == "hist":
            for j in range(nmod):
                refs[j].add_lfn(pts, base0, [lift(v) for v in valvec(j)])
        prng = random.Random(77 + shape["seed"])
        probes = [[Fr(round(prng.uniform(-2, 2) * 16), 16) for _ in range(n)] for _ in range((n + 1) * (n + 2) // 2 + 1)]
        dirs = [[Fr(round(prng.uniform(-1, 1) * 16), 16) for _ in range(n)] for _ in range(n * (n + 1) // 2 + 1)]

        def snapshot(tag):
            """collect code-side and reference-side quantities after an operation"""
            ck = dict(tag=tag, interp=[], ref=[], views=[])
            for j in range(nmod):
                call, grad, hess, hprod, curv = code_model(j)
                vv = valvec(j)
                for k in range(npt):
                    ck["interp"].append((j, k, call(ctx.arr([float(v) for v in pts[k]])), vv[k]))
                if shape["kind"] == "hist":
                    Hc = hess()
                    for p in probes:
                        xp = ctx.arr([float(v) for v in p])
                        ck["ref"].append((j, "value", call(xp), refs[j](p)))
                        gc = grad(xp)
                        gr = refs[j].grad(p)
                        for a in range(n):
                            ck["ref"].append((j, "grad", gc[a], gr[a]))
                        # views of one quadratic
                        d = [float(p[t]) for t in range(n)]
                        zero = ctx.arr([0.0] * n)
                        g0 = grad(zero)
                        c0 = call(zero)
                        quad = c0
                        for a in range(n):
                            quad = quad + g0[a] * d[a]
                            for b in range(n):
                                quad = quad + 0.5 * d[a] * Hc[a][b] * d[b]
                        ck["views"].append((j, "value_is_const_plus_grad_plus_half_hess", call(xp), quad))
                    for a in range(n):
                        for b in range(n):
                            ck["ref"].append((j, "hess", Hc[a][b], refs[j].H[a][b]))
                    for v in dirs:
                        vf = [float(t) for t in v]
                        hp = hprod(ctx.arr(vf))
                        cv = curv(ctx.arr(vf))
                        acc = 0.0
                        for a in range(n):
                            hv = 0.0
                            for b in range(n):
                                hv = hv + Hc[a][b] * vf[b]
                            ck["views"].append((j, "hess_prod_is_hess_times_v", hp[a], hv))
                            acc = acc + vf[a] * hv
                        ck["views"].append((j, "curv_is_v_hess_v", cv, acc))
            out["checks"].append(ck)

        snapshot("initial")
        if shape["kind"] == "hist":
            ops = self._history(shape, x0, pts)
            for op in ops:
                if op[0] == "upd":
                    _, k, x_new = op
                    f, cu, ce = fresh_vals()
                    xn = ctx.arr([float(v) for v in x_new])
                    # reference: add the LFN interpolant of the residual on the NEW set
                    newpts = [list(p) for p in pts]
                    newpts[k] = list(x_new)
                    newvals = ([f] + cu + ce)
                    for j in range(nmod):
                        resid = [lift(0.0)] * npt
                        resid[k] = lift(newvals[j]) - refs[j](x_new)
                        refs[j].add_lfn(newpts, base0, resid)
                    models.update_interpolation(k, xn, f, ctx.arr(cu) if cu else np.zeros(0), ctx.arr(ce) if ce else np.zeros(0))
                    pts = newpts
                    vals[k] = (f, cu, ce)
                    snapshot(f"update k={k}")
                elif op[0] == "shift":
                    nb = ctx.arr([float(v) for v in pts[op[1]]])
                    models.shift_x_base(np.copy(nb), options)
                    snapshot("shift")
                else:
                    models.reset_models()
                    for j in range(nmod):
                        refs[j] = RefQuad(n)
                        refs[j].add_lfn(pts, base0, [lift(v) for v in valvec(j)])
                    snapshot("reset")
            out["ops"] = [o[0] for o in ops]
            return out
        # ---- determinant ratios with a symbolic candidate point --------------------
        ops = self._history(shape, x0, pts)
        for op in ops:
            if op[0] == "upd":
                _, k, x_new = op
                f, cu, ce = fresh_vals()
                models.update_interpolation(k, ctx.arr([float(v) for v in x_new]), f, np.zeros(0), np.zeros(0))
                pts[k] = list(x_new)
            elif op[0] == "shift":
                models.shift_x_base(np.copy(ctx.arr([float(v) for v in pts[op[1]]])), options)
        xb = [Fr(float(v)) for v in _np.asarray(models.interpolation.x_base, dtype=object)]
        xs = [e.fresh_in(f"x{t}", -2.0, 2.0) for t in range(n)]
        xn = ctx.arr([xs[t] + float(xb[t]) for t in range(n)])
        sig_all = list(models.determinants(xn))
        sig_one = [models.determinants(xn, k) for k in range(npt)]
        out.update(xs=xs, xb=xb, pts=pts, sig_all=sig_all, sig_one=sig_one)
        return out

    # ------------------------------------------------------------------
    def judge(self, ctx, shape, o):
        claims, goals = [], []
        n, npt = shape["n"], shape["npt"]
        sig = f"n={n}:npt={npt}"

        def C(prop, clause, cond, s=None):
            claims.append(Claim(prop, "mod:" + clause, cond, sig=s or sig))

        if shape["kind"] == "interleave":
            goals.append("interleave")
            claims.append(Claim("C11", "mod:interleaved_interpolation_sets_do_not_interfere",
                                all_of(close(code, val, TOL) for (tag, code, val) in o["inter"]), sig=sig))
            return claims, goals
        if shape["kind"] == "hist":
            for ck in o["checks"]:
                op = ck["tag"].split()[0]
                goals.append("op_" + op)
                C("C12", f"models_interpolate_recorded_values_after_{op}",
                  all_of(close(code, val, TOL) for (j, k, code, val) in ck["interp"]),
                  s=f"{sig}:{'objective' if all(j == 0 for (j, _, _, _) in ck['interp']) else 'with-constraint-models'}")
                C("C13", f"model_equals_exact_least_frobenius_norm_recursion_after_{op}",
                  all_of(close(code, ref, TOL) for (j, what, code, ref) in ck["ref"]))
                C("C13", f"views_agree_after_{op}", all_of(close(a, b, TOL) for (j, what, a, b) in ck["views"]))
            return claims, goals
        # determinant ratios
        goals.append("det")
        xs = [lift(v) for v in o["xs"]]
        xb, pts = o["xb"], o["pts"]
        D = [[p[t] - xb[t] for t in range(n)] for p in pts]
        W = kkt(D)
        N = npt + n + 1
        detW = fr_det(W)
        # new column w(x): entries against the old points, then 1, then x; diagonal entry |x|^4/2
        xx = lift(0.0)
        for t in range(n):
            xx = xx + xs[t] * xs[t]
        wcol = []
        for i in range(npt):
            dot = lift(0.0)
            for t in range(n):
                dot = dot + lift(D[i][t]) * xs[t]
            wcol.append(0.5 * dot * dot)
        wcol.append(lift(1.0))
        wcol += xs
        wdiag = 0.5 * xx * xx
        for k in range(npt):
            # det of W with row and column k replaced by w(x) (diagonal wdiag), expanded along row k then column k
            idx = [i for i in range(N) if i != k]
            Mkk = fr_det([[W[i][j] for j in idx] for i in idx])
            num = wdiag * lift(Mkk)
            for jj, j in enumerate(idx):
                for ii, i in enumerate(idx):
                    rows = [r for r in idx if r != i]
                    cols = [c for c in idx if c != j]
                    minor = fr_det([[W[r][c] for c in cols] for r in rows])
                    if minor == 0:
                        continue
                    # sign: removing (k, j) from the full matrix and then (i, col k) from the minor
                    # (row k removed first; in the minor, column k sits at position pos_k among cols without j)
                    s1 = (-1) ** (k + j)
                    rows_after = [r for r in range(N) if r != k]
                    cols_after = [c for c in range(N) if c != j]
                    pi = rows_after.index(i)
                    pk = cols_after.index(k)
                    s2 = (-1) ** (pi + pk)
                    num = num + lift(Fr(s1 * s2) * minor) * wcol[j] * wcol[i]
            ratio = num * lift(1 / detW)
            rtol = 1e-6 * (1.0 + abs(ratio))          # relative: the ratios reach 1e5 on these sets
            for nm, code in (("one_index", o["sig_one"][k]), ("all_indices", o["sig_all"][k])):
                d = lift(code) - ratio
                C("C14", "determinant_ratio_" + nm, b_and(d <= rtol, d >= -rtol), s=f"{sig}:{nm}")
        return claims, goals

    def required_goals(self, tier, prop):
        if prop == "C14":
            return ["det"]
        if prop == "C11":
            return ["interleave"]
        return ["op_initial", "op_update", "op_shift", "op_reset"]

    def digest(self, ctx, shape, o):
        if shape["kind"] == "interleave":
            return [[c for (_, c, _) in o["inter"][-6:]]]
        if shape["kind"] == "hist":
            last = o["checks"][-1]
            return [[c for (_, _, c, _) in last["interp"]]]
        return [o["sig_all"]]


HARNESS = Mod()
