"""H-GLUE (configuration B of the control-flow harness): trial points are inside
the bounds *by construction* (C01, second sentence).

Real code run symbolically with SYMBOLIC geometry: Interpolation.__init__ (initial
interpolation set), and the glue of TrustRegion.get_trust_region_step,
get_second_order_correction_step, get_geometry_step together with the way
minimize composes their results into the trial point (x_best + step,
step += soc_step).  Every sub-solver is replaced by a stub that returns ANY step
inside the xl/xu and radius it was handed (that contract is C15).
"""
import math
import sys

import numpy as _np

from sx import core, symnp
from sx.core import FIN, NAN, PINF, NINF, lift, b_and, b_or, b_not, b_implies, SymFloat
from sx.runner import Claim
from .base import Harness, isnan, isfin, all_of, any_of, same_value, close

INF = math.inf


class Glue(Harness):
    name = "glue"
    serves = ("C01", "C18")
    functions = ("cobyqa/models.py:Interpolation.__init__", "cobyqa/framework.py:TrustRegion.get_trust_region_step",
                 "cobyqa/framework.py:TrustRegion.get_second_order_correction_step",
                 "cobyqa/framework.py:TrustRegion.get_geometry_step",
                 "cobyqa/framework.py:TrustRegion.get_constraint_linearizations")
    stubs = ("normal_/tangential_/constrained_tangential_byrd_omojokun, cauchy_/spider_geometry: return ANY symbolic step with "
             "xl <= s <= xu and |s| <= radius for the xl, xu, radius they were handed (contract = C15)",
             "Models / Quadratic: stand-in objects with arbitrary finite model values, zero gradients; determinants arbitrary finite")
    assumptions = ("x0 and the centre x_best lie inside the box (x0 is projected by Problem.__init__; the centre is an interpolation point, "
                   "which is the induction hypothesis); bounds with lb < ub, finite or infinite; magnitudes <= 1e3; exact real arithmetic",
                   "composition of the trial point is transcribed from minimize: x_best + (normal + tangential), then step += soc_step")

    def engine_opts(self, shape):
        return dict(timeout_ms=8000)

    def shapes(self, tier, prop=None):
        if prop == "C18":
            return [dict(kind="init", n=1, npt=2), dict(kind="init", n=2, npt=3)]
        S = [dict(kind="init", n=1, npt=2), dict(kind="init", n=1, npt=3), dict(kind="init", n=2, npt=3),
             dict(kind="init", n=2, npt=5), dict(kind="init", n=2, npt=6),
             dict(kind="trstep", n=1, cons=False), dict(kind="trstep", n=1, cons=True), dict(kind="soc", n=1),
             dict(kind="geo", n=1, cons=False)]
        if tier == "thorough":
            S += [dict(kind="init", n=3, npt=4), dict(kind="init", n=3, npt=7), dict(kind="init", n=3, npt=10),
                  dict(kind="trstep", n=2, cons=True), dict(kind="soc", n=2), dict(kind="geo", n=2, cons=True)]
        return S

    def _box(self, ctx, n):
        e = ctx.e
        xl = [e.fresh_in(f"xl{i}", -1e3, 1e3, kinds=(FIN, NINF)) for i in range(n)]
        xu = [e.fresh_in(f"xu{i}", -1e3, 1e3, kinds=(FIN, PINF)) for i in range(n)]
        for i in range(n):
            e.assume(lift(xl[i]) < xu[i]) if ctx.sym else e.assume(xl[i] < xu[i])
        return xl, xu

    def prepare(self, ctx, shape):
        M = ctx.M
        e_ = core.engine

        def any_step(xl, xu, delta):
            e = e_()
            n = len(xl)
            s = []
            for i in range(n):
                v = e.fresh_in(f"s{i}", -4e3, 4e3)
                lo, hi = symnp.min2(xl[i], 0.0), symnp.max2(xu[i], 0.0)
                e.assume(lift(lo) <= v)
                e.assume(lift(v) <= hi)
                # |s_i| <= radius (necessary for the Euclidean bound; enough for the box argument)
                e.assume(lift(v) <= delta)
                e.assume(lift(v) >= -lift(delta))
                s.append(v)
            return ctx.arr(s)

        ctx.any_step = any_step
        fw = M.framework
        M.patch(fw, "normal_byrd_omojokun", lambda aub, bub, aeq, beq, xl, xu, delta, debug, **kw: any_step(xl, xu, delta))
        M.patch(fw, "tangential_byrd_omojokun", lambda g, hp, xl, xu, delta, debug, **kw: any_step(xl, xu, delta))
        M.patch(fw, "constrained_tangential_byrd_omojokun",
                lambda g, hp, xl, xu, aub, bub, aeq, delta, debug, **kw: any_step(xl, xu, delta))
        M.patch(fw, "cauchy_geometry", lambda c, g, cv, xl, xu, delta, debug: any_step(xl, xu, delta))
        M.patch(fw, "spider_geometry", lambda c, g, cv, xpt, xl, xu, delta, debug: any_step(xl, xu, delta))
        M.patch(fw, "qr_tangential_byrd_omojokun",
                lambda aub, aeq, fxl, fxu, fub: (0, ctx.arr(_np.eye(len(fxl)).tolist())))

        class StubQuad:
            def __init__(self, interpolation, values, debug):
                self.n = interpolation.n

            def grad(self, x, interpolation):
                return ctx.arr([0.0] * self.n)

            def curv(self, v, interpolation):
                return 0.0

        M.patch(fw, "Quadratic", StubQuad)

    def run(self, ctx, shape):
        e, M, np = ctx.e, ctx.M, ctx.np
        n = shape["n"]
        kind = shape["kind"]
        xl, xu = self._box(ctx, n)
        out = dict(xl=xl, xu=xu, shape=shape)

        class B:
            pass

        if kind == "init":
            x0 = [e.fresh_in(f"x0{i}", -1e3, 1e3) for i in range(n)]
            for i in range(n):
                e.assume(lift(xl[i]) <= x0[i])
                e.assume(lift(x0[i]) <= xu[i])
            rho = e.fresh_in("radius_init", 1e-6, 1e3)
            rend = e.fresh_in("radius_final", 0.0, 1e3)
            e.assume(rend <= rho)
            pb = B()
            pb.n = n
            pb.x0 = ctx.arr(x0)
            pb.bounds = B()
            pb.bounds.xl = ctx.arr(xl)
            pb.bounds.xu = ctx.arr(xu)
            opts = {"debug": False, "radius_init": rho, "radius_final": rend, "nb_points": shape["npt"]}
            it = M.models.Interpolation(pb, opts)
            out["points"] = [list(it.point(k)) for k in range(shape["npt"])]
            out["rho"] = (opts["radius_init"], opts["radius_final"], rho)
            return out
        # ---- one iteration of glue from an arbitrary centre inside the box -------------
        P = M.problem
        FW = M.framework
        cons = []
        if shape.get("cons") or kind == "soc":
            cons = [M.NonlinearConstraint(lambda x: ctx.arr([0.0]), ctx.arr([-INF]), ctx.arr([0.0]))]
        obj = P.ObjectiveFunction(lambda x: 0.0, False, False)
        bnds = P.BoundConstraints(M.Bounds(ctx.arr(xl), ctx.arr(xu)))
        lin = P.LinearConstraints([], n, False)
        nl = P.NonlinearConstraints(cons, False, False)
        xb = [e.fresh_in(f"xb{i}", -1e3, 1e3) for i in range(n)]
        for i in range(n):
            e.assume(lift(xl[i]) <= xb[i])
            e.assume(lift(xb[i]) <= xu[i])
        pb = P.Problem(obj, ctx.arr(xb), bnds, lin, nl, None, 2.0 ** -20, False, False, 1, sys.maxsize, False)
        if pb.n != n:              # a path on which a bound pair is within the fixing tolerance: not this harness' subject
            out["skip"] = True
            return out
        pb(ctx.arr(xb))
        tr = object.__new__(FW.TrustRegion)
        tr._pb = pb
        tr._constants = M.main._set_default_constants()
        delta = e.fresh_in("radius", 1e-6, 1e3)
        tr._radius = delta
        tr._resolution = delta
        tr._penalty = 0.0
        tr._best_index = 0
        m_ub = pb.m_nonlinear_ub

        class Interp:
            pass

        class Mod:
            pass

        it = Interp()
        it.x_base = ctx.arr([0.0] * n)
        it.xpt = ctx.arr([[xb[i], xb[i] + 0.5] for i in range(n)])
        it.point = lambda k: it.x_base + it.xpt[:, k]
        it.n, it.npt = n, 2
        md = Mod()
        md.interpolation = it
        md.n, md.npt = n, 2
        fm = lambda nm: e.fresh_in(nm, -1e3, 1e3)
        md.cub = lambda x, mask=None: ctx.arr([fm("mc") for _ in range(m_ub)])
        md.ceq = lambda x, mask=None: ctx.arr([])
        md.cub_grad = lambda x, mask=None: ctx.arr([[1.0] * n for _ in range(m_ub)]) if m_ub else np.zeros((0, n))
        md.ceq_grad = lambda x, mask=None: np.zeros((0, n))
        md.fun_grad = lambda x: ctx.arr([0.0] * n)
        md.fun_hess_prod = lambda v: ctx.arr([0.0] * n)
        md.cub_hess_prod = lambda v, mask=None: ctx.arr([[0.0] * n for _ in range(m_ub)]) if m_ub else np.zeros((0, n))
        md.ceq_hess_prod = lambda v, mask=None: np.zeros((0, n))
        md.determinants = lambda x_new, k_new=None: fm("sigma")
        tr._models = md
        tr._lm_linear_ub = ctx.arr([])
        tr._lm_linear_eq = ctx.arr([])
        tr._lm_nonlinear_ub = ctx.arr([0.0] * m_ub)
        tr._lm_nonlinear_eq = ctx.arr([])
        opts = {"debug": False}
        out["xb"] = xb
        if kind in ("trstep", "soc"):
            ns, ts = tr.get_trust_region_step(opts)
            step = ns + ts
            out["trial"] = list(tr.x_best + step)
            if kind == "soc":
                soc = tr.get_second_order_correction_step(step, opts)
                step = step + soc                     # minimize: step += soc_step
                out["trial_soc"] = list(tr.x_best + step)
        else:
            step = tr.get_geometry_step(1, opts)
            out["trial"] = list(tr.x_best + step)
        return out

    def judge(self, ctx, shape, o):
        claims, goals = [], []
        n = shape["n"]
        xl, xu = o["xl"], o["xu"]
        kind = shape["kind"]
        sig = f"{kind}:n={n}"

        def C(clause, cond):
            claims.append(Claim("C01", "glue:" + clause, cond, sig=sig))

        def inside(p):
            return all_of(b_and(lift(xl[i]) <= p[i], lift(p[i]) <= xu[i]) for i in range(n))

        if o.get("skip"):
            return claims, goals
        goals.append("glue_" + kind)
        if kind == "init":
            C("initial_interpolation_points_inside_the_box", all_of(inside(p) for p in o["points"]))
            r0, rend, rho = o["rho"]
            C("initial_radius_only_reduced_and_final_below_it", b_and(lift(r0) <= rho, lift(rend) <= r0, lift(r0) > 0.0))
            claims.append(Claim("C18", "glue:radius_final_le_initial_resolution_after_fitting_to_the_box",
                                b_and(lift(rend) <= r0, lift(rend) >= 0.0, lift(r0) > 0.0), sig=sig))
            return claims, goals
        if kind == "trstep":
            C("trust_region_trial_point_inside_the_box", inside(o["trial"]))
        elif kind == "soc":
            C("trust_region_trial_point_inside_the_box", inside(o["trial"]))
            C("second_order_correction_trial_point_inside_the_box", inside(o["trial_soc"]))
        else:
            C("geometry_trial_point_inside_the_box", inside(o["trial"]))
        return claims, goals

    def required_goals(self, tier, prop):
        if prop == "C18":
            return ["glue_init"]
        return ["glue_init", "glue_trstep", "glue_soc", "glue_geo"]

    def digest(self, ctx, shape, o):
        if shape["kind"] == "init":
            return [o["points"]]
        return [o.get("trial"), o.get("trial_soc")]


HARNESS = Glue()
