"""H-SUB: the five public sub-problem solvers (C15, C16).

Real code run symbolically: tangential_byrd_omojokun,
constrained_tangential_byrd_omojokun, normal_byrd_omojokun, cauchy_geometry,
spider_geometry (and _alpha_tr, _cauchy_geom, qr_* with the real pivoted QR on
concrete working sets).  n = 1: gradient, curvature, bounds, radius (and
right-hand sides) all symbolic; n = 2: model data from a seeded grid that
contains the listed degeneracies, bounds and radius symbolic.
"""
import math

import numpy as _np
import z3

from sx import core, symnp
from sx.core import FIN, NAN, PINF, NINF, lift, b_and, b_or, b_not, b_implies, SymFloat
from sx.runner import Claim
from .base import Harness, isnan, isfin, all_of, any_of, same_value, close
from .oracles import vmax

INF = math.inf
REL = 1e-9

# n = 2 model data grid: (g, H, A_ub rows, A_eq rows); contains zero gradient, zero / indefinite /
# rank-one Hessians, redundant rows
GRID2 = [
    dict(g=[1.0, -2.0], H=[[2.0, 0.0], [0.0, 1.0]], aub=[[1.0, 1.0]], aeq=[]),
    dict(g=[0.0, 0.0], H=[[1.0, 0.0], [0.0, 1.0]], aub=[[1.0, 0.0]], aeq=[]),
    dict(g=[1.0, 1.0], H=[[0.0, 0.0], [0.0, 0.0]], aub=[[1.0, 1.0], [2.0, 2.0]], aeq=[]),
    dict(g=[-1.0, 0.5], H=[[1.0, 2.0], [2.0, -1.0]], aub=[], aeq=[[1.0, -1.0]]),
    dict(g=[0.5, 0.25], H=[[1.0, 1.0], [1.0, 1.0]], aub=[[0.0, 1.0]], aeq=[]),
    dict(g=[2.0, 0.0], H=[[-1.0, 0.0], [0.0, -2.0]], aub=[[-1.0, 1.0]], aeq=[]),
    # rank-deficient working sets whose dependent rows come first (a rank-revealing factorisation is needed)
    dict(g=[1.0, -2.0], H=[[1.0, 0.0], [0.0, 1.0]], aub=[], aeq=[[1.0, 1.0], [2.0, 2.0], [0.0, 1.0]]),
    dict(g=[1.0, -2.0], H=[[1.0, 0.0], [0.0, 1.0]], aub=[[1.0, 1.0], [2.0, 2.0], [0.0, 1.0]], aeq=[]),
]


class Sub(Harness):
    name = "sub"
    serves = ("C15", "C16")
    functions = ("cobyqa/subsolvers/optim.py:tangential_byrd_omojokun",
                 "cobyqa/subsolvers/optim.py:constrained_tangential_byrd_omojokun",
                 "cobyqa/subsolvers/optim.py:normal_byrd_omojokun", "cobyqa/subsolvers/optim.py:_alpha_tr",
                 "cobyqa/subsolvers/geometry.py:cauchy_geometry", "cobyqa/subsolvers/geometry.py:spider_geometry",
                 "cobyqa/subsolvers/geometry.py:_cauchy_geom")
    stubs = ()
    assumptions = ("origin feasible: xl <= 0 <= xu, right-hand sides b_ub >= 0; radius in [1e-6, 1e6]; every finite datum is exactly 0 or has magnitude in [1e-6, 1e6] (12 decades)",
                   "n = 1 tangential Cauchy-decrease clause: the gradient is zero or at least 1e-6 in magnitude (below, the solver's own "
                   "10*eps descent test stops the iteration)",
                   "constraint matrices are concrete (the working-set QR is LAPACK); n = 2: gradient and Hessian from a 6-point grid with the listed degeneracies",
                   "exact real arithmetic: 'within the bounds exactly' is decided for the real-valued formulas; norm and feasibility clauses carry a 1e-9 relative margin")

    def engine_opts(self, shape):
        return dict(nlsat=True, timeout_ms=15000, assert_timeout_ms=20000, merge=False, task_paths=25, first_task_paths=8)

    def shapes(self, tier, prop=None):
        S = []
        for imp in (False, True):
            S.append(dict(solver="tangential", n=1, improve=imp))
            S.append(dict(solver="ctangential", n=1, improve=imp, rows="ub"))
            S.append(dict(solver="normal", n=1, improve=imp, rows="ub"))
        S.append(dict(solver="ctangential", n=1, improve=True, rows="eq"))
        S.append(dict(solver="normal", n=1, improve=True, rows="eq"))
        S.append(dict(solver="cauchy", n=1))
        S.append(dict(solver="ctangential", n=2, grid=6, improve=False))     # rank-deficient equalities, dependent rows first
        S.append(dict(solver="tangential", n=2, grid=2, improve=False))      # two variables, linear model: bounds and radius symbolic
        S.append(dict(solver="tangential", n=2, grid=2, improve=True))
        S.append(dict(solver="spider", n=1, npts=1))
        if tier == "thorough":
            S.append(dict(solver="spider", n=1, npts=2))
        # (tried and dropped: seeded concrete n = 3 instances with only the radius symbolic, to reach the improve_tcg
        # rotations; every sqrt of _alpha_tr adds a variable, no path completed within 200 s under nlsat)
        if tier == "thorough":
            for gi in range(len(GRID2)):
                for solver in ("tangential", "ctangential", "normal", "cauchy", "spider"):
                    S.append(dict(solver=solver, n=2, grid=gi, improve=False))
                S.append(dict(solver="tangential", n=2, grid=gi, improve=True))
        return S

    # ------------------------------------------------------------------
    def run(self, ctx, shape):
        e, M, np = ctx.e, ctx.M, ctx.np
        n = shape["n"]
        O, G = M.optim, M.geometry
        if shape.get("radius_only"):
            return self._run_instance(ctx, shape)
        xl = [e.fresh_in(f"xl{i}", -1e6, 0.0, kinds=(FIN, NINF)) for i in range(n)]
        xu = [e.fresh_in(f"xu{i}", 0.0, 1e6, kinds=(FIN, PINF)) for i in range(n)]
        delta = e.fresh_in("delta", 1e-6, 1e6)
        out = dict(xl=xl, xu=xu, delta=delta, shape=shape)

        def decade(v):
            """data span 12 decades: a finite value is exactly zero or at least 1e-6 in magnitude"""
            if isinstance(v, SymFloat) and v.k == FIN:
                e.assume(b_or(v == 0.0, v >= 1e-6, v <= -1e-6))
            elif isinstance(v, float) and math.isfinite(v):
                e.assume(v == 0.0 or abs(v) >= 1e-6)
            return v

        for v in xl + xu:
            decade(v)
        if n == 1:
            g = [decade(e.fresh_in("g", -1e6, 1e6))]
            H = [[decade(e.fresh_in("h", -1e6, 1e6))]]
            aub = [[1.0]] if shape.get("rows") == "ub" else []
            aeq = [[1.0]] if shape.get("rows") == "eq" else []
            if shape.get("rows") == "ub" and e.choose(2, "row-sign") == 1:
                aub = [[-2.0]]
        else:
            d = GRID2[shape["grid"]]
            g, H, aub, aeq = d["g"], d["H"], d["aub"], d["aeq"]
        bub = [decade(e.fresh_in(f"bub{r}", 0.0, 1e6)) for r in range(len(aub))]
        beq = [decade(e.fresh_in(f"beq{r}", -1e6, 1e6)) for r in range(len(aeq))]
        const = decade(e.fresh_in("const", -1e6, 1e6)) if n == 1 and shape["solver"] in ("cauchy", "spider") else 0.0
        garr = ctx.arr(g)
        Harr = ctx.arr(H)
        aub_a = ctx.arr(aub) if aub else np.zeros((0, n))
        aeq_a = ctx.arr(aeq) if aeq else np.zeros((0, n))
        if not ctx.sym:
            aub_a = _np.array(aub, dtype=float).reshape(len(aub), n)
            aeq_a = _np.array(aeq, dtype=float).reshape(len(aeq), n)
        out.update(g=g, H=H, aub=aub, aeq=aeq, bub=bub, beq=beq, const=const)
        hp = lambda s: Harr @ s
        curv = lambda s: s @ (Harr @ s)
        solver = shape["solver"]
        kw = dict(improve_tcg=bool(shape.get("improve", False)))
        if solver == "tangential":
            step = O.tangential_byrd_omojokun(garr, hp, ctx.arr(xl), ctx.arr(xu), delta, False, **kw)
        elif solver == "ctangential":
            step = O.constrained_tangential_byrd_omojokun(garr, hp, ctx.arr(xl), ctx.arr(xu), aub_a, ctx.arr(bub) if bub else np.zeros(0),
                                                          aeq_a, delta, False, **kw)
        elif solver == "normal":
            step = O.normal_byrd_omojokun(aub_a, ctx.arr(bub) if bub else np.zeros(0), aeq_a,
                                          ctx.arr(beq) if beq else np.zeros(0), ctx.arr(xl), ctx.arr(xu), delta, False, **kw)
        elif solver == "cauchy":
            step = G.cauchy_geometry(const, garr, curv, ctx.arr(xl), ctx.arr(xu), delta, False)
        else:
            if n == 1:
                xpt = [[decade(e.fresh_in(f"p{k}", -1e6, 1e6)) for k in range(shape["npts"])]]
            else:
                xpt = [[1.0, 0.0, -0.5], [0.0, 2.0, 0.5]]
            out["xpt"] = xpt
            step = G.spider_geometry(const, garr, curv, ctx.arr(xpt), ctx.arr(xl), ctx.arr(xu), delta, False)
        out["step"] = list(_np.asarray(step, dtype=object).ravel())
        return out

    def _run_instance(self, ctx, shape):
        import random
        e, M, np = ctx.e, ctx.M, ctx.np
        O = M.optim
        n = shape["n"]
        rng = random.Random(9000 + 31 * shape["inst"] + {"tangential": 0, "ctangential": 1, "normal": 2}[shape["solver"]])
        q8 = lambda lo, hi: round(rng.uniform(lo, hi) * 8) / 8
        g = [q8(-1, 1) for _ in range(n)]
        H = [[0.0] * n for _ in range(n)]
        for i in range(n):
            for j in range(i, n):
                H[i][j] = H[j][i] = q8(-1.5, 1.5)
        xl = [rng.choice([-INF, 0.0, -q8(0.125, 1.5), -q8(0.125, 1.5)]) for _ in range(n)]
        xu = [rng.choice([INF, 0.0, q8(0.125, 1.5), q8(0.125, 1.5)]) for _ in range(n)]
        m = rng.choice([1, 2]) if shape["solver"] != "tangential" else 0
        aub = [[q8(-1, 1) for _ in range(n)] for _ in range(m)]
        bub = [rng.choice([0.0, q8(0.125, 1.0)]) for _ in range(m)]
        aeq = [[q8(-1, 1) for _ in range(n)]] if shape["solver"] != "tangential" and rng.random() < 0.3 else []
        beq = [q8(-1, 1) for _ in aeq]
        delta = e.fresh_in("delta", 0.0625, 8.0)
        out = dict(xl=xl, xu=xu, delta=delta, shape=shape, g=g, H=H, aub=aub, aeq=aeq, bub=bub, beq=beq, const=0.0)
        garr, Harr = ctx.arr(g), ctx.arr(H)
        hp = lambda s_: Harr @ s_
        mk2 = lambda rows: (ctx.arr(rows) if rows else np.zeros((0, n))) if ctx.sym else _np.array(rows, dtype=float).reshape(len(rows), n)
        if shape["solver"] == "tangential":
            step = O.tangential_byrd_omojokun(garr, hp, ctx.arr(xl), ctx.arr(xu), delta, False, improve_tcg=True)
        elif shape["solver"] == "ctangential":
            step = O.constrained_tangential_byrd_omojokun(garr, hp, ctx.arr(xl), ctx.arr(xu), mk2(aub),
                                                          ctx.arr(bub) if bub else np.zeros(0), mk2(aeq), delta, False,
                                                          improve_tcg=True)
        else:
            step = O.normal_byrd_omojokun(mk2(aub), ctx.arr(bub) if bub else np.zeros(0), mk2(aeq),
                                          ctx.arr(beq) if beq else np.zeros(0), ctx.arr(xl), ctx.arr(xu), delta, False,
                                          improve_tcg=True)
        out["step"] = list(_np.asarray(step, dtype=object).ravel())
        return out

    # ------------------------------------------------------------------
    def judge(self, ctx, shape, o):
        claims, goals = [], []
        n = shape["n"]
        solver = shape["solver"]
        sig = f"{solver}:n={n}:improve={shape.get('improve', '')}"

        def C(prop, clause, cond):
            claims.append(Claim(prop, f"sub:{solver}:{clause}", cond, sig=sig))

        s = [lift(v) for v in o["step"]]
        xl, xu, delta = o["xl"], o["xu"], lift(o["delta"])
        g = [lift(v) for v in o["g"]]
        H = [[lift(v) for v in row] for row in o["H"]]
        goals.append("solver_" + solver)
        nz = b_or(*[si != 0.0 for si in s])
        if (ctx.sym and (nz is True or (nz is not False and ctx.e.check(core._b(nz)) == "sat"))) or \
                (not ctx.sym and bool_known(nz)):
            goals.append("nonzero_step_" + solver)
        C("C15", "step_within_bounds_exactly", all_of(b_and(lift(xl[i]) <= s[i], s[i] <= xu[i]) for i in range(n)))
        nrm2 = s[0] * s[0]
        for i in range(1, n):
            nrm2 = nrm2 + s[i] * s[i]
        C("C15", "step_within_trust_region", nrm2 <= delta * delta * (1.0 + REL))

        def dot(a, b):
            r = lift(0.0)
            for u, v in zip(a, b):
                r = r + lift(u) * v
            return r

        def q(v):
            Hv = [dot(H[i], v) for i in range(n)]
            return dot(g, v) + 0.5 * dot(v, Hv)

        scale = lift(1.0)
        if solver == "tangential":
            C("C16", "does_not_increase_the_model", q(s) <= 0.0)
            if n == 1:
                # projected-gradient Cauchy step in one variable (closed form)
                gg, hh = g[0], H[0][0]
                room_neg, room_pos = -lift(xl[0]), lift(xu[0])      # room towards -1 / +1 (may be +inf)
                cond_g = b_or(gg == 0.0, gg >= 1e-6, gg <= -1e-6)

                def cauchy_val(room, gabs):
                    # minimise -gabs*t + h/2 t^2 over 0 <= t <= min(delta, room)
                    tmax = delta if not isfin(room) else symnp.min2(delta, room)
                    tmax = lift(tmax)
                    return tmax, gabs
                # q(s) <= q(s_C) is stated for both signs of g separately
                for sign, room in ((1, room_neg), (-1, room_pos)):
                    gabs = gg if sign == 1 else -gg
                    tmax = delta if not isfin(room) else lift(symnp.min2(delta, room))
                    # unconstrained minimiser along the ray: t* = gabs/h if h > 0
                    # q at t: -gabs t + h t^2 / 2
                    def qt(t):
                        return -gabs * t + 0.5 * hh * t * t
                    # s_C = argmin over [0, tmax]: t* if h>0 and gabs/h <= tmax else tmax (for gabs > 0)
                    interior = b_and(hh > 0.0, gabs <= hh * tmax)
                    # claim: for gabs >= 1e-6: q(s) <= q(tmax) when not interior;  q(s) <= -gabs^2/(2h) when interior
                    lhs = q(s)
                    C("C16", "achieves_cauchy_decrease",
                      b_implies(b_and(gabs >= 1e-6, b_not(interior)), lhs <= qt(tmax) + REL * (1.0 + gabs * tmax)))
                    C("C16", "achieves_cauchy_decrease_interior",
                      b_implies(b_and(gabs >= 1e-6, interior), lhs * 2.0 * hh <= -gabs * gabs + REL * 2.0 * hh * (1.0 + gabs * tmax)))
        elif solver == "ctangential":
            C("C16", "does_not_increase_the_model", q(s) <= 0.0)
            for r, row in enumerate(o["aub"]):
                C("C15", "keeps_inequalities_that_held_at_origin", dot(row, s) <= lift(o["bub"][r]) + REL * (1.0 + lift(o["bub"][r])))
            for r, row in enumerate(o["aeq"]):
                v = dot(row, s)
                C("C15", "stays_in_null_space_of_equalities", b_and(v <= REL * delta, v >= -REL * delta))
        elif solver == "normal":
            def viol2(v):
                t = lift(0.0)
                for r, row in enumerate(o["aub"]):
                    ex = symnp.max2(dot(row, v) - o["bub"][r], 0.0)
                    t = t + lift(ex) * ex
                for r, row in enumerate(o["aeq"]):
                    ex = dot(row, v) - o["beq"][r]
                    t = t + ex * ex
                return t
            zero = [lift(0.0)] * n
            v0 = viol2(zero)
            C("C16", "does_not_increase_linearised_violation", viol2(s) <= v0 * (1.0 + REL) + REL * REL)
        else:
            const = lift(o["const"])
            qs = const + q(s)
            C("C16", "does_not_decrease_magnitude", abs(qs) >= abs(const))
            if solver == "cauchy" and n == 1:
                room = b_or(lift(xl[0]) < 0.0, lift(xu[0]) > 0.0)
                # room in an improving direction of |const + g d|: if const >= 0 want g d > 0 ... for const = 0 any direction
                C("C16", "strictly_increases_when_first_order_improving_direction_exists",
                  b_implies(b_and(const == 0.0, g[0] != 0.0, room), abs(qs) > abs(const)))
        return claims, goals

    def required_goals(self, tier, prop):
        return ["solver_tangential", "solver_ctangential", "solver_normal", "solver_cauchy", "solver_spider",
                "nonzero_step_tangential", "nonzero_step_cauchy"]

    def digest(self, ctx, shape, o):
        return [o["step"]]


def bool_known(c):
    """True only if the condition is concretely true (no forking in judge)."""
    if isinstance(c, core.SymBool):
        return False
    return bool(c)


HARNESS = Sub()
